#!/usr/bin/env python3
"""Fill in seeded/<id>/meta.json descriptions and regenerate the table of
seeded changes in DESIGN.md (between the SEEDED markers)."""
import json
import os

VERIF = os.path.dirname(os.path.dirname(os.path.abspath(__file__)))

# what each seeded change is and what it needs in order to manifest
DESCR = {
    'S-C01': ('taskdef.py next_point_parentless: minimum over recurrences taken before the parentless test',
              'a task on two interleaved recurrences, parentless on one, parented through an optional output that is not produced on the other'),
    'S-C02': ('task_events_mgr.py: submission try counter reset at "submitted" instead of "started"',
              'submission retry delays + a job accepted by the job runner and lost before it starts (found by polling)'),
    'S-C03': ('task_pool.py is_stalled: prereqs_are_satisfied() -> is_ready_to_run()',
              'an incomplete or partially satisfied task in the pool while every other waiting task waits on an xtrigger or retry delay'),
    'S-C04': ('task_pool.py set_max_future_offset: no forced runahead recompute when the offset drops to None',
              'the last future-triggered task leaves the pool while the base point stays, then a task beyond the true limit is spawned'),
    'S-C05': ('task_queues/independent.py _make_indep: only the first earlier queue listing is overridden',
              'a task listed in three or more queues and the last queue full while an earlier one has room'),
    'S-C06': ('task_pool.py set_hold_point: only waiting tasks are held',
              'hold point set while a task beyond it has a live job with retry delays, and the job then fails'),
    'S-C09': ('task_events_mgr.py process_message: implied outputs computed from the raw message',
              'started message lost, then a suffixed failure message (failed/ERR, failed/SIGTERM) with no retry left'),
    'S-C19': ('flow_mgr.py load_from_db: flow counter from the flows still in the pool',
              'a --flow=new flow finishes before a stop/restart; the next --flow=new reuses its number'),
    'S-C20': ('rundb.py _execute_stmt: "with self.connect() as conn" commits every statement',
              'scheduler killed at a statement boundary inside a DB flush, then restarted'),
    'S-C21': ('rundb.py close(): commit before close',
              'a private-DB write fails part-way through a batch: the executed part is persisted'),
    'S-C22': ('workflow_db_mgr.py put_broadcast cancel branch: De Morgan slip drops pending inserts sharing any column',
              'broadcast put and clear/expire of a different setting sharing point, namespace or key in one main-loop iteration, then restart'),
    'S-C26': ('scheduler.py _main_loop: is_updated no longer triggers update_data_structure (task_pool table rewrite)',
              '`cylc stop --flow=N` with a pooled task in flow N that stays pooled and nothing else changing in that iteration'),
    'S-C27': ('commands.py reload_workflow: DB flush moved after the pool reload',
              'workflow already paused; an output message processed in the same iteration as the reload; the new definition adds a prerequisite on it'),
    'S-C28': ('commands.py _force_trigger_tasks: outputs of finished (not only live) group-start members recorded as completed',
              'a finished incomplete group-start member re-run by the trigger together with a member depending on an output of its old run'),
    'S-C10': ('task_events_mgr.py process_message: "already running" guard is_gt(RUNNING) -> state(RUNNING)',
              'a started message for the current submit number delivered after the task has failed (no retry left) or succeeded incomplete'),
    'S-C11': ('task_pool.py _load_historical_outputs: manually completed outputs dropped when a proxy is rebuilt from the DB',
              'failed task retained incomplete, completed with `cylc set`, removed, then reached again by the same flow'),
    'S-C25': ('task_pool.py spawn_on_output: prerequisite delta only for the listed child',
              'absolute trigger whose child also has an ordinary parent, completing out of cycle order'),
    'S-C29': ('task_events_mgr.py _process_message_failed: "forced" short-circuit lost',
              '`cylc set --out=failed` on a task with a live job and an execution retry left'),
    'S-C30': ('commands.py _remove_matched_tasks: any() stops un-setting at the first prerequisite',
              'a child depending on the removed parent through two separate prerequisite expressions'),
    'S-C32': ('task_pool.py/task_proxy.py reload refactor: is_manual_submit not carried to the reload successor',
              'clock-expired task force-triggered into a full queue, then a reload before a slot frees up'),
    'S-C33': ('scheduler.py _main_loop: housekeep() given a task list taken before sequential-xtrigger spawning',
              'sequential non-clock xtrigger whose signature does not contain the cycle point'),
    'S-C43': ('task_pool.py compute_runahead: stop-point clamp applied before the future-trigger offset',
              'future trigger in the graph and a stop point earlier than the final point'),
    'S-C45': ('task_pool.py spawn_on_output: absolute_outputs table stores the output label instead of the message',
              'absolute trigger on a custom output, restart after it completed, dependents spawned after the restart'),
    'S-C07': ('task_pool.py compute_runahead: stop-point clamp tests the limit before the future offset is added',
              'future trigger + stop point earlier than the final point + a limit that jumps over the stop point'),
    'S-C08': ('flow_mgr.py load_from_db: new-flow counter from the flows still in the pool',
              'a commanded flow has finished, then a restart, then --flow=new'),
    'S-C42': ('subprocpool.py process(): `continue` dropped after killing a timed-out command',
              'a pooled command still running when the process pool timeout expires'),
    'S-C46': ('task_pool.py spawn_next_parentless: cutoff is the initial point instead of the start point',
              'warm start (or start tasks) + an inter-cycle offset spanning more than one step of the recurrence'),
    'S-C48': ('clean.py clean(): runN tidy-up no longer guarded by "run dir no longer exists"',
              'targeted clean (--rm DIR) of the run that runN points at'),
    'S-C44': ('workflow_db_mgr.py on_workflow_start: chmod of the private DB only on a cold start',
              'private DB replaced while the scheduler is down by a copy with umask-default permissions, then a restart'),
    'S-C01b': ('task_events_mgr.py process_message: implied outputs from the raw message (same change as S-C09, made independently)',
               'a :started trigger on a task whose job fails with a suffixed message while its started message is late or lost'),
    'S-C03b': ('task_job_mgr.py _prep_submit_task_job_error: is_manual_submit no longer reset',
               'manual trigger + job preparation failing before submission + a submission retry delay'),
    'S-C11b': ('task_proxy.py copy_to_reload_successor: outputs replayed by message, forced completions dropped',
               'required output completed with `cylc set`, then a reload, then the job succeeds without emitting it'),
    'S-C19b': ('workflow_db_mgr.py put_broadcast cancel filter: any -> all',
               'broadcast set and a different one sharing point, namespace or key cancelled in one iteration, then restart'),
    'S-C20b': ('workflow_db_mgr.py put_task_pool: retry timers that never timed out are not stored',
               'scheduler killed or stopped while the first job of a task with retry delays is live; the job then fails'),
    'S-C25b': ('data_store_mgr.py delta_task_state: pending delta no longer compared',
               'status leaving and returning to the stored state between two store updates (prep failure with submission retry)'),
    'S-C30b': ('task_pool.py load_db_task_pool_for_restart: satisfied prerequisites reloaded as booleans',
               '`cylc set --pre`, restart, then `cylc remove` of the parent'),
    'S-C09b': ('task_proxy.py copy_to_reload_successor: completed outputs replayed by trigger name instead of message',
               'custom output whose message differs from its name, completed, task still pooled, then a reload'),
    'S-C28b': ('commands.py force_trigger_tasks: upstream IDs built without the cycle offset when grouping members',
               'one group trigger whose members span several cycle points linked only by an inter-cycle trigger'),
    'S-C26b': ('workflow_db_mgr.py put_task_pool: is_held stored only for waiting tasks',
               'a task that has already started (or finished incomplete) is then held by `cylc hold` or killed'),
    'S-C27b': ('task_proxy.py copy_to_reload_successor: `pre_reload.get(k) or check_output(...)` re-evaluates existing unsatisfied prerequisites from the DB',
               'a pooled task with an unsatisfied prerequisite whose output is recorded in the DB (task removed and respawned by another parent), then a reload'),
    'S-C22b': ('broadcast_mgr.py put_broadcast: first setting of a target stored without a copy, nested sections shared between targets',
               'one broadcast to several new (point, namespace) targets with a nested section, then a change, cancel or expiry aimed at one of them'),
    'S-C10b': ('scheduler.py process_queued_task_messages: poll flag overwritten by each later message of the batch',
               'a backward message (started after the final message) followed in the same main-loop batch by another message of the same task'),
    'S-C43b': ('scheduler.py: the stop point is forgotten whenever the automatic shutdown is decided, also when a stop task or the stop clock caused it',
               'a stop cycle point not yet reached together with a stop task (or stop clock time) that ends the run first'),
    'S-C33b': ('xtrigger_mgr.py call_xtriggers_async: next call time counted from the previously scheduled time, not from now',
               'a signature that goes more than one interval without being called (slow function, or checking lapses), then a burst of catch-up calls'),
    'S-C45b': ('rundb.py select_abs_outputs_for_restart: GROUP BY cycle, name keeps one output per parent',
               'two different outputs of one parent instance referenced by absolute triggers, both completed, restart, dependents spawned afterwards'),
    'S-C46b': ('task_state.py _add_prerequisites: sequential prerequisite pre-satisfied against the initial instead of the start point',
               'a sequential special task in a warm start (or behind start tasks)'),
    'S-C04b': ('task_pool.py compute_runahead: limit capped at the stop point before the future-trigger extension is added',
               'a future trigger with its dependent pooled + a stop point earlier than the final point + base close to the stop point'),
    'S-C31b': ('config.py: sequential family expanded through first-parent descendants only',
               '`sequential = FAMILY` with a member inheriting the family as a second parent, and a runahead limit admitting several instances'),
    'S-C05b': ('task_pool.py count_active_tasks: a released-awaiting-preparation task in the waiting state no longer counted',
               'a manually triggered queued task and a queue release in the same main-loop pass (trigger then resume, or a slot freed just then)'),
    'S-C08b': ('task_pool.py _get_task_history: history rows with a lower submit number than the latest ignored',
               'a task complete in flow 1, run again in flow 2, then reached again by flow 1'),
    'S-C21b': ('rundb.py: public-DB retry counter incremented per failed statement only, not for a failed commit',
               'a reader lock on the public DB (statements succeed, commit fails) held for MAX_TRIES writes'),
    'S-C20c': ('task_pool.py load_db_task_pool_for_restart: {trigger: message} and [message] branches merged into set_message_complete',
               'a custom output whose message differs from its trigger, completed by a live job before the scheduler dies or stops, then a restart'),
    'S-C30c': ('commands.py _remove_matched_tasks: DB clean-up of a dropped child uses the command\'s flow argument (empty = all flows) instead of the flows removed',
               'a child with recorded history in flow 2, waiting in the pool in flow 1 on the removed parent only, then `cylc remove` without --flow'),
    'S-C48b': ('pathutil.py get_next_rundir_number: run numbers compared as strings when runN is missing',
               'ten or more numbered runs and the latest one cleaned (runN gone), then another install'),
    'S-C42b': ('subprocpool.py put_command: a command refused by a closed pool is also queued',
               'pool closed, then a non-submit command put while process() keeps being called: a second callback'),
    'S-C44b': ('network/authentication.py key_housekeeping: old key files no longer removed before the new ones are created',
               'key files left by an unclean exit and opened up (chmod go+r) before the restart'),
    'S-C32b': ('task_pool.py queue_or_trigger: is_manual_submit set only when the task is not queued',
               'a clock-expire task past its expiry time triggered by hand into a full queue'),
    'S-C02b': ('task_events_mgr.py _process_message_check: failure messages bypass the gate that ignores messages while a retry is lined up',
               'the failure of one job reported twice (poll result, then the job message) while the task waits for its retry'),
    'S-C07b': ('config.py add_sequence: the target of a suicide trigger gains the recurrence of the section the trigger is written in',
               'a suicide trigger written in a section whose recurrence differs from the target task\'s own'),
    'S-C31': ('cycling/integer.py get_nearest_prev_point reduced to get_prev_point',
              'sequential task on a finite recurrence followed after a gap by another recurrence'),
}
NOTES = {
    'S-C07b': 'first missed: the generator wrote no suicide triggers; C07 now adds one, on an output no job produces, in a section other than its target\'s (written verbatim, not modelled)',
    'S-C30c': 'MISSED (seeded in the last half hour, not yet answered): C30 compares pool, prerequisites and the removed task\'s own DB rows; it has no rule on the DB history of a dropped child in flows the removal did not touch. Needed: a workload where the child ran in another flow first, and a rule that task_states/task_outputs rows of other tasks in untouched flows are unchanged by the removal. Only the related test files were run with this patch, not the full suite',
    'S-C20c': 'only the related test files were run with this patch (182 passed), not the full suite',
    'S-C48b': 'first missed: histories had at most a dozen operations and never ten installs; a share of the histories now starts with 9-12 plain installs',
    'S-C44b': 'first missed: nothing ever loosened an existing private file; after a crash the files left behind are now opened up (chmod go+r) in half of the cases',
    'S-C45b': 'first missed, for two reasons: few runs had two different absolute outputs of one parent (the stop-mode generator now makes them), and the C45-F2 predicate (an earlier instance of the dependent already finished) also matched instances spawned after the output completed, so the seeded violations were filed under the known finding; the predicate now requires the instance to have been pooled before the output completed',
    'S-C46b': 'first missed: C46 had no sequential special tasks; adding them also exposed a genuine defect (fix 0cec6cb)',
    'S-C31b': 'first missed: sequential tasks were always listed by name; the generator now also lists them through a family inherited as first or second parent',
    'S-C05b': 'first missed: the C05 workload had no manual triggers and the oracle excused any excess that involved a manually triggered member; command mode added, and a queue release on top of a manual member is now a violation',
    'S-C08b': 'first missed: random flow commands rarely line up; a biased pair (re-run a finished task in flow 2, then re-trigger its parent in flow 1) was added',
    'S-C21b': 'first missed: public locks failed every statement, and nothing checked the copy-recovery at the MAX_TRIES threshold; commit-only locks and a threshold sub-check added',
    'S-C04b': 'also caught by C43 (submission beyond the stop point)',
    'S-C27b': 'first missed: no C27 run had an unsatisfied prerequisite whose output was in the DB; the workload now removes a partially satisfied waiting task before the reload (another parent respawns it)',
    'S-C10b': 'first missed: the poll that must follow a backward message was recorded but never checked; C10 now requires the jobs-poll command for that job to have run, be running or be queued in the process pool by the end of the iteration that handled the message, unless the task left the pool or went back to waiting (a first version that waited 12 iterations for the poll alarmed falsely in the thorough tier when the command queued behind others)',
    'S-C43b': 'first missed (C43 and C19): no run combined a stop point with a stop task; C43 now does in half of its stop-task cases and requires the unreached stop point to survive in the DB',
    'S-C09b': 'first caught only by C27 (outputs across a reload); C09 then got a mid-run reload in a third of its cases, which catches it and also found the genuine defect f3b13e3',
    'S-C01b': 'caught by C09 and C10; C01 does not see it (with message loss its closure check only gives a lower bound)',
    'S-C03b': 'first missed: no check combined manual triggers with job-preparation failures; the bash -n seam now injects them and C28 got the stranded-member rule',
    'S-C11b': 'caught by C27 (outputs across a reload), not by C11',
    'S-C19b': 'caught by C22; C19 issues no broadcast cancel',
    'S-C30b': 'first missed: restart snapshots compared prerequisite satisfaction as booleans and no run had force-satisfied prerequisites; C19 now keeps the kind of satisfaction and issues `set --pre`',
    'S-C44': 'first missed: no file was ever replaced between the incarnations; a restore-from-copy variant was added',
    'S-C32': 'first caught only by C27; C32 got a command mode (trigger of a clock-expire task into a full queue, reload)',
    'S-C48': 'first missed: the install/clean histories had no targeted clean; operation and two rules added',
    'S-C10': 'first caught only by C09 (illegal transition); C10 got an independent rule (a received message for an earlier stage must not move the status back)',
    'S-C11': 'caught by C29 (the set command is what makes the task complete); the C11 workload has no operator commands',
    'S-C25': 'first missed: C25 generated no absolute triggers; enabled',
    'S-C29': 'first missed: C29 only set outputs in a paused workflow (no live jobs); a live mode was added',
    'S-C33': 'first missed: the model took "still needed" from the task list cylc passes to housekeep() (the very list the change makes stale); it now reads the pool',
    'S-C45': 'first missed: absolute triggers were only generated on :succeeded and all dependents were spawned before the stop; custom outputs and long, tightly runahead-limited stop/restart runs added',
    'S-C26': 'caught by C26 (56 violations in 800 runs) on the commit it was seeded on (b1144d7) after the C26 workload gained operator commands; on the current tree the repair 2e8800f makes `stop --flow` publish a data-store delta, which triggers the table rewrite by itself, so the seeded change no longer breaks the property (equivalent mutant on HEAD)',
    'S-C01': 'first missed: the known-finding predicate of C01-F1 (any broken parentless chain) swallowed it; the predicate was narrowed to chains the shipped per-recurrence algorithm cannot reach',
    'S-C02': 'first missed: the world had no job that is accepted and then lost before starting, and the outcome plan never exhausted the submission retries; both added, and a never-ending run is now ended as a livelock and judged instead of being a harness error',
    'S-C20': 'first produced harness errors: the SQLite proxy did not implement the connection context manager; added',
    'S-C27': 'first missed: the oracle took "recorded" from the database only; it now also uses the pooled upstream task, and a reload variant is built at injection time around an output completed in that very iteration (counting messages merely delivered to the scheduler queue was tried as well and withdrawn: a false alarm in the thorough tier)',
}


def main():
    rows = []
    sd = os.path.join(VERIF, 'seeded')
    for sid in sorted(os.listdir(sd)):
        mp = os.path.join(sd, sid, 'meta.json')
        if not os.path.exists(mp):
            continue
        meta = json.load(open(mp))
        what, needs = DESCR.get(sid, (meta.get('what', '?'),
                                      meta.get('needs', '?')))
        meta['what'] = what
        meta['needs_to_manifest'] = needs
        if sid in NOTES:
            meta['note'] = NOTES[sid]
        meta.setdefault('ran', [
            'demo test with and without the patch in a scratch worktree',
            'full test suite with the patch (pytest -n 5), compared with '
            'BASELINE stable_pass; see verify_log.txt',
            'tools/seedcheck.py: git -C /repo apply, quick checks, '
            'git -C /repo checkout -- .'])
        json.dump(meta, open(mp, 'w'), indent=1)
        caught = ', '.join(
            f"{p} ({', '.join(v['rules'][:2])})"
            for p, v in sorted(meta.get('checks_run', {}).items())
            if isinstance(v, dict) and v.get('caught')) or 'none on HEAD (see note)'
        rows.append(f"| {sid} | {meta['breaks_property']} | {what} | {needs} | {caught} |")
    table = ['| id | breaks | change | needs | caught by (rules) |',
             '|---|---|---|---|---|'] + rows
    notes = [f'* {k}: {v}.' for k, v in sorted(NOTES.items())]
    block = '\n'.join(table) + '\n\nNotes:\n\n' + '\n'.join(notes) + '\n'
    p = os.path.join(VERIF, 'DESIGN.md')
    s = open(p).read()
    a, b = '<!-- SEEDED:BEGIN -->', '<!-- SEEDED:END -->'
    if a in s:
        s = s[:s.index(a) + len(a)] + '\n' + block + s[s.index(b):]
    else:
        s = s.replace('SEEDED_TABLE', a + '\n' + block + b)
    open(p, 'w').write(s)
    print(len(rows), 'seeded changes')


if __name__ == '__main__':
    main()
