#!/usr/bin/env python3
"""Store a seeded breaking change under /verif/seeded/<id>/ and run checks
against it: git -C /repo apply <patch>; bin/verif check ...; git -C /repo
checkout -- .   (the change is never committed to /repo).

usage: seedcheck.py <seed-id> <property-broken> <src-dir-with-patch.diff-and-demo> PID [PID ...]
       seedcheck.py --rerun <seed-id> [PID ...]      (re-run stored checks)
"""
import json
import os
import shutil
import subprocess
import sys

VERIF = os.path.dirname(os.path.dirname(os.path.abspath(__file__)))
REPO = '/repo'


def sh(cmd, **k):
    return subprocess.run(cmd, shell=True, capture_output=True, text=True, **k)


def run_checks(patch, pids, tier='quick'):
    assert sh(f'git -C {REPO} status --porcelain').stdout.strip() == '', \
        '/repo is dirty'
    out = {}
    r = sh(f'git -C {REPO} apply {patch}')
    if r.returncode:
        return {'apply_error': r.stderr.strip()[-300:]}
    try:
        for pid in pids:
            r = sh(f'timeout 1500 {VERIF}/bin/verif check {pid} --tier {tier}',
                   cwd=VERIF)
            rules = sorted({l.rsplit('-', 1)[-1].replace('.json', '')
                            for l in r.stdout.splitlines()
                            if l.startswith('VIOLATION')})
            summary = [l for l in r.stdout.splitlines()
                       if l.startswith(f'{pid} {tier}:')]
            out[pid] = {'exit': r.returncode, 'caught': r.returncode == 1,
                        'rules': rules,
                        'summary': summary[-1] if summary else r.stdout[-200:]}
            print(f'  {pid}: exit {r.returncode} '
                  f'{"CAUGHT" if r.returncode == 1 else "missed"} {rules}')
    finally:
        sh(f'git -C {REPO} checkout -- .')
    assert sh(f'git -C {REPO} status --porcelain').stdout.strip() == ''
    return out


def main():
    a = sys.argv[1:]
    if a[0] == '--rerun':
        sid = a[1]
        d = os.path.join(VERIF, 'seeded', sid)
        meta = json.load(open(os.path.join(d, 'meta.json')))
        pids = a[2:] or sorted(meta.get('checks_run', {}))
    else:
        sid, broken, src = a[0], a[1], a[2]
        pids = a[3:]
        d = os.path.join(VERIF, 'seeded', sid)
        os.makedirs(d, exist_ok=True)
        for f in os.listdir(src):
            if f.endswith(('.diff', '.py', '.md')) and os.path.isfile(
                    os.path.join(src, f)):
                shutil.copy(os.path.join(src, f), os.path.join(d, f))
        meta = {'id': sid, 'breaks_property': broken}
        mp = os.path.join(d, 'meta.json')
        if os.path.exists(mp):
            meta.update(json.load(open(mp)))
    head = sh(f'git -C {REPO} rev-parse --short HEAD').stdout.strip()
    print(f'{sid}: checks against /repo {head} + patch')
    res = run_checks(os.path.join(d, 'patch.diff'), pids)
    meta.setdefault('checks_run', {}).update(res)
    meta['repo_head_when_checked'] = head
    meta['caught_by'] = sorted(p for p, v in meta['checks_run'].items()
                               if isinstance(v, dict) and v.get('caught'))
    with open(os.path.join(d, 'meta.json'), 'w') as fh:
        json.dump(meta, fh, indent=1)
    return 0


if __name__ == '__main__':
    sys.exit(main())
