#!/usr/bin/env python3
"""Sensitivity self-test: apply hand-written mutants to /repo (working tree
only, always reverted) and require the named check to fail."""
import subprocess
import sys
import os

REPO = os.environ.get('MUT_REPO', '/repo')   # a scratch worktree may be used
VERIF = os.path.dirname(os.path.dirname(os.path.abspath(__file__)))
M = [
 ('m_c10_submitnum', 'C10', 'cylc/flow/task_events_mgr.py',
  "if flag == self.FLAG_RECEIVED and submit_num != itask.submit_num:",
  "if False and flag == self.FLAG_RECEIVED and submit_num != itask.submit_num:"),
 ('m_c07_valid', 'C07', 'cylc/flow/task_pool.py',
  "        if not self.config.get_taskdef(name).is_valid_point(point):",
  "        if False and not self.config.get_taskdef(name).is_valid_point(point):"),
 ('m_c07_childvalid', 'C07', 'cylc/flow/taskdef.py',
  "                if seq.is_valid(child_point):",
  "                if True:"),
 ('m_c04_limit', 'C04', 'cylc/flow/task_pool.py',
  "limit_point = sorted(sequence_points)[:ilimit + 1][-1]",
  "limit_point = sorted(sequence_points)[:ilimit + 2][-1]"),
 ('m_c05_le', 'C05', 'cylc/flow/task_queues/independent.py',
  "while not self.limit or n_active < self.limit:",
  "while not self.limit or n_active <= self.limit:"),
 ('m_c11_complete', 'C11', 'cylc/flow/task_pool.py',
  "        if not itask.state.outputs.is_complete():\n            # Keep incomplete tasks in the pool.",
  "        if False and not itask.state.outputs.is_complete():\n            # Keep incomplete tasks in the pool."),
 ('m_c02_noretry', 'C02', 'cylc/flow/task_events_mgr.py',
  "            or itask.try_timers[TimerFlags.EXECUTION_RETRY].next() is None\n        ):\n            # No retry lined up: definitive failure.",
  "            or itask.try_timers[TimerFlags.EXECUTION_RETRY].next() is None\n            or itask.point is not None\n        ):\n            # No retry lined up: definitive failure."),
 ('m_c31_noseq', 'C31', 'cylc/flow/task_state.py',
  "        if tdef.sequential:\n            # Add a previous-instance succeeded prerequisite.",
  "        if False and tdef.sequential:\n            # Add a previous-instance succeeded prerequisite."),
 ('m_c03_autoshut', 'C03', 'cylc/flow/scheduler.py',
  "                    itask.state(TASK_STATUS_WAITING)\n                    and not itask.state.is_runahead\n                )",
  "                    itask.state(TASK_STATUS_WAITING)\n                    and not itask.state.is_runahead\n                    and False\n                )"),
 ('m_c26_pooltable', 'C26', 'cylc/flow/workflow_db_mgr.py',
  "        for itask in pool.get_tasks():",
  "        for itask in pool.get_tasks()[1:]:"),
 ('m_c01_or_and', 'C01', 'cylc/flow/prerequisite.py',
  "        if not self.conditional_expression:\n            return all(self._satisfied.values())",
  "        if not self.conditional_expression:\n            return any(self._satisfied.values())"),
 ('m_c06_queue_ignores_held', 'C06', 'cylc/flow/task_queues/independent.py',
  "            if itask.state.is_held:\n                held.append(itask)",
  "            if False and itask.state.is_held:\n                held.append(itask)"),
 ('m_c06_future_hold', 'C06', 'cylc/flow/task_pool.py',
  "            if (name, point) in self.tasks_to_hold:",
  "            if False and (name, point) in self.tasks_to_hold:"),
 ('m_c06_no_restore', 'C06', 'cylc/flow/scheduler.py',
  "        self.pool.load_db_tasks_to_hold()",
  "        pass  # self.pool.load_db_tasks_to_hold()"),
 ('m_c45_abs_spawn', 'C45', 'cylc/flow/task_pool.py',
  "                itask.tdef.has_abs_triggers\n                and itask.state.prerequisites_are_not_all_satisfied()",
  "                False and itask.tdef.has_abs_triggers\n                and itask.state.prerequisites_are_not_all_satisfied()"),
 ('m_c46_prestart', 'C46', 'cylc/flow/task_trigger.py',
  "                    prereq_offset_point < tdef.start_point\n                    and point >= tdef.start_point",
  "                    False and prereq_offset_point < tdef.start_point\n                    and point >= tdef.start_point"),
 ('m_c21_nonatomic', 'C21', 'cylc/flow/rundb.py',
  "            for stmt, stmt_args in sql_queue:\n                self._execute_stmt(stmt, stmt_args)",
  "            for stmt, stmt_args in sql_queue:\n                self._execute_stmt(stmt, stmt_args)\n                self.conn.commit()"),
 ('m_c42_size', 'C42', 'cylc/flow/subprocpool.py',
  "        while self.queuings and len(self.runnings) < self.size:",
  "        while self.queuings and len(self.runnings) <= self.size:"),
 ('m_c42_timeout', 'C42', 'cylc/flow/subprocpool.py',
  "            if time() > ctx.timeout:",
  "            if False and time() > ctx.timeout:"),
 ('m_c44_dbperm', 'C44', 'cylc/flow/workflow_db_mgr.py',
  "        os.chmod(self.pri_path, PERM_PRIVATE)",
  "        pass"),
 ('m_c43_stopcp_clear', 'C43', 'cylc/flow/scheduler.py',
  "            self.workflow_db_mgr.put_workflow_stop_cycle_point(None)\n\n        return True",
  "            pass\n\n        return True"),
 ('m_c19_holdpoint', 'C19', 'cylc/flow/scheduler.py',
  "                and self.options.holdcp is None\n            ):\n                self.options.holdcp = value",
  "                and self.options.holdcp is None\n            ):\n                pass"),
 ('m_c20_remove_commit', 'C20', 'cylc/flow/task_pool.py',
  "            self.workflow_db_mgr.put_update_task_state(itask)\n\n            level = logging.DEBUG",
  "            level = logging.DEBUG"),
 ('m_c33_inflight', 'C33', 'cylc/flow/xtrigger_mgr.py',
  "            if sig in self.active:\n                # Already waiting on this result.\n                continue",
  "            if False and sig in self.active:\n                # Already waiting on this result.\n                continue"),
 ('m_c33_interval', 'C33', 'cylc/flow/xtrigger_mgr.py',
  "            self.t_next_call[sig] = now + ctx.intvl",
  "            self.t_next_call[sig] = now + ctx.intvl / 2"),
 ('m_c33_nocache', 'C33', 'cylc/flow/xtrigger_mgr.py',
  "        self.sat_xtrig[sig] = results\n\n        self.do_housekeeping = True",
  "        self.do_housekeeping = True"),
 ('m_c32_manual', 'C32', 'cylc/flow/task_pool.py',
  "                and itask.state(TASK_STATUS_WAITING)\n\n                # check if this task is clock expired",
  "                and itask.state(TASK_STATUS_WAITING, TASK_STATUS_FAILED, TASK_STATUS_RUNNING)\n\n                # check if this task is clock expired"),
 ('m_c32_early', 'C32', 'cylc/flow/task_proxy.py',
  "            or time() < self.expire_time  # not time yet",
  "            or time() < self.expire_time - 7200  # not time yet"),
 ('m_c22_precedence', 'C22', 'cylc/flow/broadcast_mgr.py',
  "        for cycle in ALL_CYCLE_POINTS_STRS + [tokens['cycle']]:",
  "        for cycle in [tokens['cycle']] + ALL_CYCLE_POINTS_STRS:"),
 ('m_c22_expire', 'C22', 'cylc/flow/broadcast_mgr.py',
  "                        get_point(point_string) < cutoff_point):",
  "                        get_point(point_string) <= cutoff_point):"),
 ('m_c22_cancel_db', 'C22', 'cylc/flow/workflow_db_mgr.py',
  "            if is_cancel:\n                self.db_deletes_map[self.TABLE_BROADCAST_STATES].append({",
  "            if is_cancel and broadcast_change['namespace'] != 'root':\n                self.db_deletes_map[self.TABLE_BROADCAST_STATES].append({"),
 ('m_c48_exists', 'C48', 'cylc/flow/install.py',
  "    if rundir.exists():\n        raise WorkflowFilesError(",
  "    if False and rundir.exists():\n        raise WorkflowFilesError("),
 ('m_c48_number', 'C48', 'cylc/flow/pathutil.py',
  "        last_run_num = max(run_numbers, default=0)",
  "        last_run_num = max(run_numbers, default=0) - 1"),
 ('m_c48_relink', 'C48', 'cylc/flow/install.py',
  "    if relink:\n        link_runN(rundir)",
  "    if relink and run_num != 3:\n        link_runN(rundir)"),
 ('m_c25_held_delta', 'C25', 'cylc/flow/data_store_mgr.py',
  "        for field in ('is_held', 'is_queued', 'is_runahead'):\n            val = getattr(itask.state, field)",
  "        for field in ('is_queued', 'is_runahead'):\n            val = getattr(itask.state, field)"),
 ('m_c29_implied', 'C29', 'cylc/flow/task_outputs.py',
  "        elif message == TASK_OUTPUT_STARTED:\n            # It must have submitted.\n            implied = [TASK_OUTPUT_SUBMITTED]",
  "        elif message == TASK_OUTPUT_STARTED:\n            # It must have submitted.\n            implied = []"),
 ('m_c29_active', 'C29', 'cylc/flow/task_state.py',
  "        if forced and req in [TASK_STATUS_SUBMITTED, TASK_STATUS_RUNNING]:",
  "        if forced and req in [TASK_STATUS_SUBMITTED]:"),
 ('m_c29_setall', 'C29', 'cylc/flow/task_proxy.py',
  "                if not set_all and pre not in prereqs:\n                    continue",
  "                if not set_all and pre.task not in {p.task for p in prereqs}:\n                    continue"),
 ('m_c30_forced', 'C30', 'cylc/flow/prerequisite.py',
  "            if t_output.get_id() == id_ and sat and sat != 'force satisfied':",
  "            if t_output.get_id() == id_ and sat:"),
 ('m_c30_orphan', 'C30', 'cylc/flow/commands.py',
  "                or child_itask.state.any_satisfied_prerequisite_outputs()\n            ):\n                continue",
  "                or True\n            ):\n                continue"),
 ('m_c30_dbskip', 'C30', 'cylc/flow/commands.py',
  "        db_removed_fnums = schd.workflow_db_mgr.remove_task_from_flows(\n            id_['cycle'], id_['task'], flow_nums,\n        )",
  "        db_removed_fnums = set() if itask else schd.workflow_db_mgr.remove_task_from_flows(\n            id_['cycle'], id_['task'], flow_nums,\n        )"),
 ('m_c30_holdleak', 'C30', 'cylc/flow/commands.py',
  "            schd.pool.tasks_to_hold.discard((itask.tdef.name, itask.point))",
  "            pass"),
 ('m_c30_flowmatch', 'C30', 'cylc/flow/commands.py',
  "            fnums_to_remove = child_itask.match_flows(flow_nums)\n            if not fnums_to_remove:\n                continue",
  "            fnums_to_remove = child_itask.flow_nums.copy()\n            if not fnums_to_remove:\n                continue"),
 ('m_c27_held', 'C27', 'cylc/flow/task_proxy.py',
  "        reload_successor.state.is_held = self.state.is_held\n",
  ""),
 ('m_c27_submit', 'C27', 'cylc/flow/task_proxy.py',
  "        reload_successor.submit_num = self.submit_num\n",
  ""),
 ('m_c27_prereq', 'C27', 'cylc/flow/task_proxy.py',
  "                pre[k] = pre_reload.get(\n                    k,\n                    # Else look thru task outputs to see if it's been satisfied\n                    check_output(*k, self.flow_nums)\n                )",
  "                pre[k] = check_output(*k, self.flow_nums)"),
 ('m_c27_newpre', 'C27', 'cylc/flow/task_proxy.py',
  "                    check_output(*k, self.flow_nums)\n                )",
  "                    False\n                )"),
 ('m_c27_trigger', 'C27', 'cylc/flow/commands.py',
  "    schd.pool.tasks_to_trigger_now = set()\n",
  "    pass\n"),
 ('m_c27_flows', 'C27', 'cylc/flow/task_pool.py',
  "                    itask.point,\n                    itask.flow_nums,\n                    itask.state.status,",
  "                    itask.point,\n                    {1},\n                    itask.state.status,"),
 ('m_c28_activeouts', 'C28', 'cylc/flow/commands.py',
  "                if key.output in active_completed_outputs.get(\n                    (str(key.point), key.task), ()\n                )",
  "                if (str(key.point), key.task) in active_completed_outputs"),
 ('m_c28_order', 'C28', 'cylc/flow/commands.py',
  "        if jtask is not None and not in_flow_prereqs:",
  "        if jtask is not None:"),
 ('m_c28_live', 'C28', 'cylc/flow/commands.py',
  "            if itask.state(TASK_STATUS_PREPARING, *TASK_STATUSES_ACTIVE):\n                # This is a live active group start task",
  "            if False:\n                # This is a live active group start task"),
 ('m_c27_orphan', 'C27', 'cylc/flow/task_pool.py',
  "                if itask.state(TASK_STATUS_WAITING):\n                    # Remove orphaned task if it hasn't started running yet",
  "                if itask.state(TASK_STATUS_WAITING) or itask.state.is_held:\n                    # Remove orphaned task if it hasn't started running yet"),
 ('m_c27_queued', 'C27', 'cylc/flow/task_proxy.py',
  "        reload_successor.state.is_queued = self.state.is_queued\n",
  ""),
 ('m_c08_counter', 'C08', 'cylc/flow/flow_mgr.py',
  "        self.counter = self.db_mgr.pri_dao.select_workflow_flows_max_flow_num()\n        self.flows = self.db_mgr.pri_dao.select_workflow_flows(flow_nums)",
  "        self.flows = self.db_mgr.pri_dao.select_workflow_flows(flow_nums)\n        self.counter = max(self.flows, default=0)"),
 ('m_c08_carry', 'C08', 'cylc/flow/task_pool.py',
  "                c_task = self.spawn_task(c_name, c_point, itask.flow_nums)\n\n            tasks: List[TaskProxy]",
  "                c_task = self.spawn_task(c_name, c_point, {min(itask.flow_nums)})\n\n            tasks: List[TaskProxy]"),
 ('m_c08_merge', 'C08', 'cylc/flow/task_pool.py',
  "                self.merge_flows(c_task, itask.flow_nums)\n            elif c_task is None and itask.flow_nums:",
  "                pass\n            elif c_task is None and itask.flow_nums:"),
 ('m_c08_history', 'C08', 'cylc/flow/task_pool.py',
  "            if set.intersection(flow_nums, old_fnums):",
  "            if len(flow_nums) > 1 and set.intersection(flow_nums, old_fnums):"),
 ('m_c08_mergesubset', 'C08', 'cylc/flow/task_pool.py',
  "        if not flow_nums or flow_nums.issubset(itask.flow_nums):",
  "        if not flow_nums or (flow_nums == itask.flow_nums):"),
 ('m_c11_usercompletion', 'C11', 'cylc/flow/task_outputs.py',
  "    completion = tdef.rtconfig.get('completion')\n    if completion:",
  "    completion = tdef.rtconfig.get('completion')\n    if False:"),
 ('m_c01_family_any', 'C01', 'cylc/flow/graph_parser.py',
  "        QUAL_FAM_SUCCEED_ANY: (TASK_OUTPUT_SUCCEEDED, False),",
  "        QUAL_FAM_SUCCEED_ANY: (TASK_OUTPUT_SUCCEEDED, True),"),
 ('m_c09_started_back', 'C09', 'cylc/flow/task_events_mgr.py',
  "            if flag == self.FLAG_RECEIVED and itask.state.is_gt(\n                TASK_STATUS_RUNNING\n            ):\n                # Already running.\n                return True",
  "            if False:\n                # Already running.\n                return True"),
]


def run(cmd, **k):
    return subprocess.run(cmd, shell=True, capture_output=True, text=True, **k)


def main():
    only = set(sys.argv[1:])
    res = {}
    assert run(f'git -C {REPO} status --porcelain').stdout.strip() == '', 'repo dirty'
    for name, prop, path, old, new in M:
        if only and name not in only and prop not in only:
            continue
        full = os.path.join(REPO, path)
        src = open(full).read()
        if src.count(old) != 1:
            print(f'{name}: pattern count {src.count(old)} != 1, SKIP')
            res[name] = 'skip'
            continue
        try:
            open(full, 'w').write(src.replace(old, new))
            n = {'C20': 60, 'C21': 60, 'C44': 3, 'C42': 3000, 'C48': 200}.get(prop, 400)
            r = run(f'VERIF_REPO={REPO} timeout 900 {VERIF}/bin/verif check {prop} --tier quick -n {n}', cwd=VERIF)
            caught = r.returncode == 1 and 'VIOLATION' in r.stdout
            rules = sorted({l.split('-')[-1].replace('.json', '') for l in r.stdout.splitlines() if l.startswith('VIOLATION')})
            print(f'{name} [{prop}]: exit {r.returncode} {"CAUGHT" if caught else "MISSED"} {rules}')
            if not caught:
                print('   ', r.stdout.strip().splitlines()[-1:], r.stderr.strip()[-300:])
            res[name] = caught
        finally:
            run(f'git -C {REPO} checkout -- .')
    assert run(f'git -C {REPO} status --porcelain').stdout.strip() == ''
    return 0


if __name__ == '__main__':
    sys.exit(main())
