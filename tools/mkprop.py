"""Helper to stamp out an E1 property driver from the common header."""
import re
import os
HERE = os.path.join(os.path.dirname(os.path.dirname(os.path.abspath(__file__))), 'simlib', 'props')


def mk(pid, title, rule, probes, nq, nt, body):
    src = open(os.path.join(HERE, 'c26.py')).read().split("def make_params")[0]
    src = re.sub(r'^""".*?"""', f'"""{pid} {title} (engine E1, exploration). See DESIGN.md section 7."""', src, count=1, flags=re.S)
    src = src.replace("PID = 'C26'", f"PID = '{pid}'")
    src = re.sub(r"RULE = \(.*?\)\nASSUMPTIONS", lambda m: "RULE = (" + repr(rule) + ")\nASSUMPTIONS", src, flags=re.S)
    src = re.sub(r"EXPECTED_PROBES = .*\n", lambda m: f"EXPECTED_PROBES = {probes!r}\n", src)
    src = src.replace("'n': 800", f"'n': {nq}").replace("'n': 16000", f"'n': {nt}")
    src += "def make_params(seed, tier):\n    return {'seed': seed}\n\n" + body.lstrip('\n')
    open(os.path.join(HERE, pid.lower() + '.py'), 'w').write(src)
