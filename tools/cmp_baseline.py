#!/usr/bin/env python3
"""Compare a junit xml with BASELINE.json stable_pass."""
import json, sys
import xml.etree.ElementTree as ET
base = json.load(open('/root/.vp/BASELINE.json'))
stable = set(base['stable_pass'])
tree = ET.parse(sys.argv[1])
res = {}
for tc in tree.iter('testcase'):
    name = f"{tc.get('classname')}::{tc.get('name')}"
    bad = any(ch.tag in ('failure', 'error') for ch in tc)
    skipped = any(ch.tag == 'skipped' for ch in tc)
    res[name] = 'fail' if bad else ('skip' if skipped else 'pass')
missing = [n for n in stable if n not in res]
failing = [n for n in stable if res.get(n) in ('fail', 'skip')]
print('stable_pass:', len(stable), 'present:', len(stable) - len(missing), 'not passing:', len(failing), 'missing:', len(missing))
for n in sorted(failing)[:60]:
    print('  NOT PASSING', n, res[n])
for n in sorted(missing)[:20]:
    print('  MISSING', n)
