#!/usr/bin/env python3
"""Regenerate MANIFEST.json from the property drivers present."""
import json
import os
import re
import sys

HERE = os.path.dirname(os.path.dirname(os.path.abspath(__file__)))
NA_PURE = {
    'C12': 'classification of a boolean completion expression is a pure function of the expression; no schedule, clock, fault or history to simulate',
    'C13': 'prerequisite truth is a pure function of (expression, satisfied subset); exercised as a by-product of C01 but not claimed',
    'C14': 'graph parsing is a pure function of the graph text',
    'C15': 'family trigger expansion is a pure function of graph text and family map',
    'C16': 'integer recurrence arithmetic is a pure function of its arguments (two defects were found and fixed as a by-product of C01, but the property itself is not decided by simulation)',
    'C17': 'recurrence queries with caches are single-threaded functions of a query history; no scheduler, clock or fault involved (stateful property-based testing is a different technique)',
    'C18': 'point/interval algebra is pure',
    'C23': 'identifier parse/format round trip is pure',
    'C24': 'AST whitelisting is a pure function of the expression',
    'C34': 'parameter expansion is a pure function of its input',
    'C35': 'C3 linearisation is a pure function of the inheritance DAG',
    'C36': 'config re-parse idempotence is a pure function of the configuration text',
    'C37': 'repr/eval_var round trip is a pure function of the value; restart adds no schedule or fault dimension',
    'C38': 'containment of cylc clean is a function of directory tree and pattern; no history, clock or fault in the statement',
    'C39': 'name validation is a pure function of the name',
    'C40': 'workflow-state query matching is a pure function of (database content, pattern)',
    'C41': 'environment quoting is a pure function of the configuration',
    'C47': 'host/platform selection is a pure function of (configuration, bad-host set)',
}
TECH = {
    'E1': 'deterministic simulation of the whole scheduler (virtual-time asyncio loop, simulated jobs/subprocesses/messages, seeded schedules and faults) checked against step invariants and an executable reference model',
    'E2': 'deterministic fault injection at every SQLite statement of generated batches against the real database manager, differential oracle',
    'E3': 'deterministic simulation of the subprocess pool with simulated child processes and clock, seeded operation/stop sequences',
    'E4': 'deterministic simulation: scheduler start-up + seeded broadcast operation histories with stop/crash restarts, reference model',
    'E5': 'deterministic simulation of install/reinstall/clean histories with injected filesystem and rsync faults',
}


def main():
    sys.path.insert(0, HERE)
    props = [json.loads(l) for l in open(os.path.join(HERE, 'properties.jsonl'))]
    checks = []
    na = []
    pdir = os.path.join(HERE, 'simlib', 'props')
    for p in props:
        pid = p['id']
        path = os.path.join(pdir, pid.lower() + '.py')
        if os.path.exists(path):
            src = open(path).read()
            def grab(name, default=None):
                m = re.search(rf"^{name} = (.+?)(?=^\S)", src, re.S | re.M)
                if not m:
                    return default
                return eval(m.group(1))
            level = grab('LEVEL', 'exploration')
            engine = grab('ENGINE', 'E1')
            text = grab('LEVEL_TEXT') or (
                'Seeded search over generated workflows, schedules and faults '
                'on the real scheduler code; a clean batch is evidence, not proof.')
            note = grab('LEVEL_NOTE') or (
                'Trusted: the simulated world (jobs, subprocesses, message '
                'transport, clock), the generator and the reference model; '
                'covers only the generated workflow sub-language and the '
                'localhost platform.')
            checks.append({
                'property_id': pid,
                'quick_cmd': f'bin/verif check {pid} --tier quick',
                'thorough_cmd': f'bin/verif check {pid} --tier thorough',
                'evidence_file': f'evidence/{pid}.json',
                'replay_cmd_template': 'bin/verif replay {path}',
                'engine': engine,
                'level_claimed': {'category': level, 'text': text,
                                  'design_ref': f'DESIGN.md section 7 ({pid})'},
                'level_note': note,
                'technique': TECH[engine],
            })
        elif pid in NA_PURE:
            na.append({'property_id': pid, 'reason': 'not applicable to deterministic simulation: ' + NA_PURE[pid]})
        else:
            na.append({'property_id': pid, 'reason': 'not claimed yet: check not built at this commit (planned, DESIGN.md section 7)'})
    man = {
        'version': 1,
        'setup_cmd': 'bin/verif setup',
        'hooks': {
            'guard': 'CYLC_FLOW_VERIF',
            'enable': 'no hooks in /repo: every seam is rebound from the harness (simlib/core.py Seams.install); the harness sets CYLC_FLOW_VERIF=1 in its own processes only',
            'baseline_off_cmd': 'cd /repo && /venv/bin/python -m pytest -ra -q -p no:cacheprovider --timeout=900 --continue-on-collection-errors',
            'source_commits': [],
            'add_only': True,
        },
        'engines': [
            {'name': 'E1', 'path': 'simlib/e1.py', 'kind_free_text': 'whole-scheduler deterministic simulation',
             'serves_properties': [c['property_id'] for c in checks if c['engine'] == 'E1']},
            {'name': 'E2', 'path': 'simlib/dbsim.py', 'kind_free_text': 'database layer fault enumeration',
             'serves_properties': [c['property_id'] for c in checks if c['engine'] == 'E2']},
            {'name': 'E3', 'path': 'simlib/poolsim.py', 'kind_free_text': 'subprocess pool simulation',
             'serves_properties': [c['property_id'] for c in checks if c['engine'] == 'E3']},
            {'name': 'E4', 'path': 'simlib/bcastsim.py', 'kind_free_text': 'broadcast operation machine on a started scheduler',
             'serves_properties': [c['property_id'] for c in checks if c['engine'] == 'E4']},
            {'name': 'E5', 'path': 'simlib/installsim.py', 'kind_free_text': 'install/reinstall/clean operation machine',
             'serves_properties': [c['property_id'] for c in checks if c['engine'] == 'E5']},
        ],
        'checks': checks,
        'not_applicable': na,
        'notes': 'Technique: deterministic simulation with fault injection. See DESIGN.md. Exit codes: 0 held, 1 violation (VIOLATION line), 2 harness error. Repairs of genuine defects in /repo are the commits whose message starts with fix: (listed in known_findings.json as fixed).',
    }
    with open(os.path.join(HERE, 'MANIFEST.json'), 'w') as fh:
        json.dump(man, fh, indent=1)
    print(len(checks), 'checks;', len(na), 'not applicable')


if __name__ == '__main__':
    main()
