"""Engine E1: one simulated scheduler run of a generated program, with
monitors; shared by the per-property drivers."""
import random
import traceback

from .boot import CLOCK
from .core import HarnessError, Sim, derive_seed
from .gen import gen_program, atoms
from .harness import Harness, global_text
from .refmodel import Model, OutcomePlan
from .world import World


class Case:
    """Everything that defines one simulated execution (replayable)."""

    def __init__(self, seed, knobs=None, rates=None, policy='complete',
                 plan_kw=None, world_cfg=None, gkw=None, opts=None):
        self.seed = seed
        self.knobs = knobs or {}
        self.rates = rates or {}
        self.policy = policy
        self.plan_kw = plan_kw or {}
        self.world_cfg = world_cfg or {}
        self.gkw = gkw or {}
        self.opts = opts or {}
        self.prog = None
        self.choices = None   # replay choice log

    def build(self):
        rng = random.Random(derive_seed(self.seed, 'prog'))
        self.prog = gen_program(rng, self.knobs)
        return self.prog


class Result:
    def __init__(self):
        self.violations = []   # (rule, detail)
        self.stops = []
        self.launches = []
        self.sim = None
        self.world = None
        self.model = None
        self.closure = None
        self.iterations = 0
        self.sim_seconds = 0.0
        self.log_tail = []
        self.error = None
        self.pool_digests = set()

    def violate(self, rule, detail):
        self.violations.append((rule, detail))


def world_truth_outputs(world, plan, prog, now):
    """Outputs that have actually happened in the world by time ``now``."""
    out = {}
    for key, job in list(world.jobs.items()) + list(world.superseded):
        pstr, name, nn = key
        try:
            p = prog.ppoint(pstr)
        except Exception:
            continue
        s = out.setdefault((name, p), set())
        seq = plan.seq(name, p)
        last = nn >= len(seq)
        if not job.submit_ok:
            if last and now >= job.t_submit:
                s.add('submit-failed')
            continue
        s.add('submitted')
        if job.started(now):
            s.add('started')
        for m in job.outputs_at(now):
            s.add(m[4:] if m.startswith('msg ') else m)
        fin = job.final_at(now)
        if fin == 'succeeded':
            s.add('succeeded')
        elif fin == 'subvanish':
            if last:
                s.add('submit-failed')
        elif fin in ('failed', 'vanish', 'killed') and last:
            s.add('failed')
    return out


def run_case(case, monitors=(), max_restarts=0, setup=None, lifecycle=None):
    """Run a case once (no restarts unless a driver handles them)."""
    prog = case.prog or case.build()
    plan = OutcomePlan(derive_seed(case.seed, 'plan'), prog,
                       policy=case.policy, **case.plan_kw)
    sim = Sim(derive_seed(case.seed, 'sim'), replay=case.choices,
              rates=case.rates)
    world = World(sim, plan, case.world_cfg)
    res = Result()
    res.sim = sim
    res.world = world
    res.plan = plan
    res.prog = prog
    model = Model(prog, plan)
    res.model = model
    h = None
    try:
        from .core import Seams
        Seams.hash_salt = derive_seed(case.seed, 'salt') & 0xffffffff
        h = Harness(sim, prog.render(), plan, world,
                    gtext=global_text(**case.gkw), opts=case.opts,
                    extra_files=getattr(case, 'extra_files', None),
                    epoch=getattr(case, 'epoch', None))
        res.harness = h
        for m in monitors:
            m.attach(h, res, case)
        if setup:
            setup(h, res, case)
        if lifecycle is None:
            info = h.run_once()
            res.stops.append(info.reason)
        else:
            lifecycle(h, res)
        res.iterations = h.total_iterations
        res.sim_seconds = CLOCK.t
        res.log_tail = [m for _, m in h.log.records[-30:]]
        res.log = h.log.records
        for m in monitors:
            m.finish(h, res, case)
    except HarnessError as exc:
        res.error = f'HarnessError: {exc}'
        if h is not None:
            res.error += ' | stops=' + str(h.stops) + ' | log tail: ' + (
                ' // '.join(m[:120] for _, m in h.log.records[-12:]))
            res.error += ' | events: ' + ' // '.join(sim.events[-12:])
    except Exception as exc:
        res.error = 'harness exception: ' + ''.join(
            traceback.format_exception(type(exc), exc, exc.__traceback__))[-1500:]
    finally:
        if h is not None:
            h.cleanup()
    res.launches = list(world.launch_log)
    return res


class Monitor:
    def attach(self, h, res, case):
        pass

    def finish(self, h, res, case):
        pass


# ---------------------------------------------------------------------------
# commands, snapshots, multi-incarnation runs
# ---------------------------------------------------------------------------

def run_sync(coro):
    """Drive a coroutine that never really suspends."""
    try:
        coro.send(None)
    except StopIteration as exc:
        return exc.value
    coro.close()
    raise HarnessError('coroutine suspended in synchronous context')


def inject_command(h, name, kwargs):
    """Queue an operator command through the shipped Resolvers code
    (validation + queueing), as the server thread would."""
    schd = h.schd
    res = run_sync(schd.server.resolvers._mutation_mapper(name, kwargs, {}))
    h.sim.log('command', name, jdump_short(kwargs), '->', jdump_short(res)[:60])
    return res


def jdump_short(obj):
    import json
    return json.dumps(obj, default=str, sort_keys=True)[:160]


class CommandDriver(Monitor):
    """Injects commands at (iteration, slot) interception points of the
    command queue (slot 0/1 = first/second process_command_queue call)."""

    def __init__(self, schedule):
        # schedule: list of dicts {iter, slot, name, kwargs, incarnation}
        self.schedule = list(schedule)
        self.done = []

    def attach(self, h, res, case):
        self.h = h
        self.slot = 0
        h.pre_iter_hooks.append(self._new_iter)
        h.intercept_hooks.append(self._intercept)
        res.commands_done = self.done

    def _new_iter(self, h):
        self.slot = 0

    def _intercept(self, h, label):
        if label != 'command_queue' or h.schd is None:
            return
        it = h.iterations
        slot = self.slot
        self.slot += 1
        for c in self.schedule:
            if c.get('done'):
                continue
            if 'incarnation' in c and c['incarnation'] != h.incarnation:
                continue
            if 'at_time' in c:
                due = CLOCK.t >= c['at_time']
            else:
                due = (c['iter'] == it and c.get('slot', 0) == slot) or (
                    c['iter'] < it)
            if due:
                c['done'] = True
                pooled = frozenset(
                    i.identity for i in h.schd.pool.get_tasks()
                ) if hasattr(h.schd, 'pool') else frozenset()
                kwargs = self.resolve(h, c)
                if kwargs is None:
                    continue
                r = inject_command(h, c['name'], kwargs)
                self.done.append((CLOCK.t, h.incarnation, it, c['name'],
                                  kwargs, r, pooled))

    def resolve(self, h, c):
        """Return the kwargs for a due command (subclasses may pick targets
        from the current state; None skips the command)."""
        return c['kwargs']


def snapshot(h):
    """State of the scheduler that a restart must preserve."""
    schd = h.schd
    pool = schd.pool
    tasks = {}
    for i in pool.get_tasks():
        st = i.state
        prs = {}
        for p in st.prerequisites:
            for k, v in p.items():
                # the kind of satisfaction matters too (`cylc remove` leaves
                # force-satisfied prerequisites alone)
                prs['/'.join(map(str, k))] = str(v) if v else False
        tasks[i.identity] = {
            'status': st.status,
            'held': bool(st.is_held),
            'flows': sorted(i.flow_nums),
            'submit_num': i.submit_num,
            'outputs': sorted(st.outputs.get_completed_outputs()),
            'prereqs': prs,
            'xtriggers': dict(st.xtriggers),
            'manual': bool(i.is_manual_submit),
            'flow_wait': bool(i.flow_wait),
        }
    return {
        'tasks': tasks,
        'hold_point': str(pool.hold_point) if pool.hold_point else None,
        'stop_point': str(schd.config.stop_point) if schd.config.stop_point else None,
        'pool_stop_point': str(pool.stop_point) if pool.stop_point else None,
        'stop_task': pool.stop_task_id,
        'tasks_to_hold': sorted(f'{p}/{n}' for n, p in pool.tasks_to_hold),
        'broadcasts': jdump_short(schd.broadcast_mgr.broadcasts),
        'flow_counter': schd.flow_mgr.counter,
        'paused': bool(schd.is_paused),
    }
