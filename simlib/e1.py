"""Engine E1: one simulated scheduler run of a generated program, with
monitors; shared by the per-property drivers."""
import random
import traceback

from .boot import CLOCK
from .core import HarnessError, Sim, derive_seed
from .gen import gen_program, atoms
from .harness import Harness, global_text
from .refmodel import Model, OutcomePlan
from .world import World


class Case:
    """Everything that defines one simulated execution (replayable)."""

    def __init__(self, seed, knobs=None, rates=None, policy='complete',
                 plan_kw=None, world_cfg=None, gkw=None, opts=None):
        self.seed = seed
        self.knobs = knobs or {}
        self.rates = rates or {}
        self.policy = policy
        self.plan_kw = plan_kw or {}
        self.world_cfg = world_cfg or {}
        self.gkw = gkw or {}
        self.opts = opts or {}
        self.prog = None
        self.choices = None   # replay choice log

    def build(self):
        rng = random.Random(derive_seed(self.seed, 'prog'))
        self.prog = gen_program(rng, self.knobs)
        return self.prog


class Result:
    def __init__(self):
        self.violations = []   # (rule, detail)
        self.stops = []
        self.launches = []
        self.sim = None
        self.world = None
        self.model = None
        self.closure = None
        self.iterations = 0
        self.sim_seconds = 0.0
        self.log_tail = []
        self.error = None
        self.pool_digests = set()

    def violate(self, rule, detail):
        self.violations.append((rule, detail))


def world_truth_outputs(world, plan, prog, now):
    """Outputs that have actually happened in the world by time ``now``."""
    out = {}
    for key, job in world.jobs.items():
        pstr, name, nn = key
        try:
            p = prog.ppoint(pstr)
        except Exception:
            continue
        s = out.setdefault((name, p), set())
        seq = plan.seq(name, p)
        last = nn >= len(seq)
        if not job.submit_ok:
            if last and now >= job.t_submit:
                s.add('submit-failed')
            continue
        s.add('submitted')
        if job.started(now):
            s.add('started')
        for m in job.outputs_at(now):
            s.add(m[4:] if m.startswith('msg ') else m)
        fin = job.final_at(now)
        if fin == 'succeeded':
            s.add('succeeded')
        elif fin in ('failed', 'vanish', 'killed') and last:
            s.add('failed')
    return out


def run_case(case, monitors=(), max_restarts=0, setup=None):
    """Run a case once (no restarts unless a driver handles them)."""
    prog = case.prog or case.build()
    plan = OutcomePlan(derive_seed(case.seed, 'plan'), prog,
                       policy=case.policy, **case.plan_kw)
    sim = Sim(derive_seed(case.seed, 'sim'), replay=case.choices,
              rates=case.rates)
    world = World(sim, plan, case.world_cfg)
    res = Result()
    res.sim = sim
    res.world = world
    res.plan = plan
    res.prog = prog
    model = Model(prog, plan)
    res.model = model
    h = None
    try:
        from .core import Seams
        Seams.hash_salt = derive_seed(case.seed, 'salt') & 0xffffffff
        h = Harness(sim, prog.render(), plan, world,
                    gtext=global_text(**case.gkw), opts=case.opts)
        res.harness = h
        for m in monitors:
            m.attach(h, res, case)
        if setup:
            setup(h, res, case)
        info = h.run_once()
        res.stops.append(info.reason)
        res.iterations = h.total_iterations
        res.sim_seconds = CLOCK.t
        res.log_tail = [m for _, m in h.log.records[-30:]]
        res.log = h.log.records
        for m in monitors:
            m.finish(h, res, case)
    except HarnessError as exc:
        res.error = f'HarnessError: {exc}'
    except Exception as exc:
        res.error = 'harness exception: ' + ''.join(
            traceback.format_exception(type(exc), exc, exc.__traceback__))[-1500:]
    finally:
        if h is not None:
            h.cleanup()
    res.launches = list(world.launch_log)
    return res


class Monitor:
    def attach(self, h, res, case):
        pass

    def finish(self, h, res, case):
        pass
