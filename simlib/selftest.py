"""Determinism self-test: same seed -> same event-log digest, twice in one
process and in a fresh interpreter; divergence under another PYTHONHASHSEED
is reported (it means a str-set iteration order inside cylc reached the
schedule; replay files therefore record the hash seed)."""
import glob
import json
import os
import subprocess
import sys


def digests(pid, seeds):
    from . import runner
    mod = runner.load_prop(pid)
    out = {}
    for s in seeds:
        r = mod.run(mod.make_params(s, 'quick'))
        if r.get('error'):
            out[str(s)] = 'ERROR ' + r['error'][-200:]
        else:
            out[str(s)] = ','.join(r['stats'].get('digests', [])) + '|' + str(
                sorted(v['rule'] for v in r.get('violations', [])))
    return out


def main(n=6, pids=None):
    from .core import derive_seed
    here = os.path.dirname(os.path.abspath(__file__))
    if not pids:
        pids = sorted(os.path.basename(p)[:-3].upper()
                      for p in glob.glob(os.path.join(here, 'props', 'c[0-9]*.py')))
    bad = 0
    for pid in pids:
        seeds = [derive_seed('selftest', pid, i) % 2 ** 48 for i in range(n)]
        a = digests(pid, seeds)
        b = digests(pid, seeds)
        same_proc = a == b
        env = dict(os.environ)
        fresh = {}
        for hs in (os.environ.get('PYTHONHASHSEED', '0'), '12345'):
            env['PYTHONHASHSEED'] = hs
            out = subprocess.run(
                [sys.executable, '-c',
                 'import sys, json; from simlib import boot; '
                 'from simlib.selftest import digests; '
                 f'print("@@"+json.dumps(digests({pid!r}, {seeds!r})))'],
                env=env, capture_output=True, text=True,
                cwd=os.path.dirname(here))
            line = [ln for ln in out.stdout.splitlines() if ln.startswith('@@')]
            fresh[hs] = json.loads(line[0][2:]) if line else {'error': out.stderr[-500:]}
        hs0 = os.environ.get('PYTHONHASHSEED', '0')
        ok_fresh = fresh[hs0] == a
        ok_other = fresh['12345'] == a
        print(f'{pid}: same-process {"OK" if same_proc else "DIVERGED"}; '
              f'fresh interpreter {"OK" if ok_fresh else "DIVERGED"}; '
              f'other PYTHONHASHSEED {"same" if ok_other else "differs (recorded in replay)"}')
        if not same_proc or not ok_fresh:
            bad += 1
            for s in a:
                if a[s] != b[s] or a[s] != fresh[hs0].get(s):
                    print('   seed', s, a[s][:60], '|', b[s][:60], '|', str(fresh[hs0].get(s))[:60])
    return 1 if bad else 0
