"""Step-invariant monitors (oracle kind A).

Class-level wrappers are installed once per process on cylc classes and
dispatch to the monitor context of the run in progress (``CTX``).  A missing
wrapper target is a HarnessError, never a silent pass.
"""
import json
import os
import sqlite3
import traceback

from .boot import CLOCK
from .core import HarnessError
from .e1 import Monitor, world_truth_outputs

CTX = None           # current InvariantMonitor or None
_INSTALLED = False

FINAL = ('succeeded', 'failed', 'submit-failed', 'expired')
ORDER = {'waiting': 0, 'preparing': 1, 'submitted': 2, 'running': 3,
         'succeeded': 4, 'failed': 4, 'submit-failed': 4, 'expired': 4}


def _wrap(cls, name, before=None, after=None):
    if not hasattr(cls, name):
        raise HarnessError(f'monitor target missing: {cls.__name__}.{name}')
    orig = getattr(cls, name)

    def wrapper(self, *a, **k):
        ctx = CTX
        tok = None
        if ctx is not None and before is not None:
            try:
                tok = before(ctx, self, a, k)
            except HarnessError:
                raise
            except Exception as exc:
                raise HarnessError(
                    f'monitor hook before {cls.__name__}.{name} failed: '
                    + traceback.format_exc()[-1500:]) from exc
        r = orig(self, *a, **k)
        if ctx is not None and after is not None:
            try:
                after(ctx, self, a, k, r, tok)
            except HarnessError:
                raise
            except Exception as exc:
                raise HarnessError(
                    f'monitor hook after {cls.__name__}.{name} failed: '
                    + traceback.format_exc()[-1500:]) from exc
        return r
    wrapper.__wrapped__ = orig
    setattr(cls, name, wrapper)


def install():
    global _INSTALLED
    if _INSTALLED:
        return
    from cylc.flow.scheduler import Scheduler
    from cylc.flow.task_events_mgr import TaskEventsManager
    from cylc.flow.task_job_mgr import TaskJobManager
    from cylc.flow.task_pool import TaskPool
    from cylc.flow.task_proxy import TaskProxy
    from cylc.flow.task_queues.independent import IndepQueueManager
    from cylc.flow.xtrigger_mgr import XtriggerManager

    _wrap(TaskProxy, 'state_reset',
          before=lambda c, s, a, k: c.pre_state_reset(s),
          after=lambda c, s, a, k, r, t: c.post_state_reset(s, a, k, r, t))
    _wrap(TaskPool, 'add_to_pool',
          after=lambda c, s, a, k, r, t: c.on_add_to_pool(s, a[0]))
    _wrap(TaskPool, 'remove',
          before=lambda c, s, a, k: c.on_remove(
              s, a[0], a[1] if len(a) > 1 else k.get('reason')))
    _wrap(IndepQueueManager, 'release_tasks',
          before=lambda c, s, a, k: dict(a[0]),
          after=lambda c, s, a, k, r, t: c.on_queue_release(s, t, r))
    _wrap(IndepQueueManager, 'push_task',
          after=lambda c, s, a, k, r, t: c.on_queue_push(s, a[0]))
    _wrap(TaskJobManager, 'prep_submit_task_jobs',
          before=lambda c, s, a, k: c.on_prep(s, list(a[0])))
    _wrap(TaskEventsManager, 'process_message',
          before=lambda c, s, a, k: c.pre_message(s, a, k),
          after=lambda c, s, a, k, r, t: c.post_message(s, a, k, r, t))
    _wrap(Scheduler, '_set_stop',
          before=lambda c, s, a, k: c.on_set_stop(s, a[0] if a else k.get('stop_mode')))
    _wrap(Scheduler, 'check_workflow_stalled',
          after=lambda c, s, a, k, r, t: c.on_stall_check(s, r))
    _wrap(XtriggerManager, 'call_xtriggers_async',
          after=lambda c, s, a, k, r, t: None)
    _INSTALLED = True


def names_of(itask):
    """Completed outputs as output *names* (triggers)."""
    return set(itask.state.outputs.get_completed_outputs())


class InvariantMonitor(Monitor):
    """All E1 step invariants; each violation is tagged with its property."""

    def __init__(self, manual=None, relaxed=False, commands=False):
        self.manual = manual if manual is not None else set()
        self.relaxed = relaxed        # faults beyond schedule variation
        self.commands = commands      # operator commands present
        self.retry_pending = set()

    # -- plumbing ----------------------------------------------------------
    def attach(self, h, res, case):
        global CTX
        install()
        self.h = h
        self.res = res
        self.case = case
        self.prog = res.prog
        self.model = res.model
        self.qmap = self._queue_map()
        self.last_outputs = {}      # identity -> set(names)
        self.transitions = []
        self.held_model = None
        self.set_stop_seen = []
        self.stall_reports = 0
        self.seq_active = {}
        self.n_checks = 0
        h.iter_hooks.append(self.on_iteration_end)
        CTX = self

    def finish(self, h, res, case):
        global CTX
        CTX = None

    def v(self, prop, rule, detail):
        d = dict(detail)
        d['property'] = prop
        d['t'] = CLOCK.t
        self.res.violate(rule, d)

    def ident(self, itask):
        return (itask.tdef.name, self.prog.ppoint(str(itask.point)))

    def known(self, itask):
        return itask.tdef.name in self.prog.tasks

    # -- C09 lifecycle -----------------------------------------------------
    def pre_state_reset(self, itask):
        st = itask.state
        return (st.status, st.is_held, st.is_queued, st.is_runahead)

    def post_state_reset(self, itask, a, k, changed, before):
        if not changed or itask.transient or not self.known(itask):
            return
        st = itask.state
        old, new = before[0], st.status
        forced = k.get('forced', False)
        if old != new:
            self.transitions.append((CLOCK.t, itask.identity, old, new))
            self.res.sim.log('state', itask.identity, old, '->', new)
            loading = self.h.iterations == 0   # restart: pool being reloaded
            if not self.commands and not forced and not loading:
                self.check_edge(itask, old, new)
        # runahead release (C04)
        if before[3] and not st.is_runahead:
            self.on_runahead_release(itask)

    def check_edge(self, itask, old, new):
        ok = False
        if new == 'waiting':
            # only for an automatic retry: a retry xtrigger must be armed
            ok = any(lbl.startswith('_cylc_retry_') or
                     lbl.startswith('_cylc_submit_retry_')
                     for lbl, sat in itask.state.xtriggers.items() if not sat)
        elif new == 'expired':
            ok = old == 'waiting'
        elif new == 'submit-failed':
            ok = old in ('preparing', 'submitted')
        elif new in ORDER and old in ORDER:
            ok = ORDER[new] > ORDER[old] and old not in FINAL
        if not ok:
            self.v('C09', 'illegal_status_transition', {
                'task': itask.identity, 'from': old, 'to': new})

    # -- messages (C10) ----------------------------------------------------
    def pre_message(self, tem, a, k):
        itask = a[0]
        self.msg_depth = getattr(self, 'msg_depth', 0) + 1
        if itask.transient or not self.known(itask):
            return None
        flag = a[4] if len(a) > 4 else k.get('flag', tem.FLAG_INTERNAL)
        sn = a[5] if len(a) > 5 else k.get('submit_num')
        return (itask.state.status, frozenset(names_of(itask)),
                itask.submit_num, flag, sn)

    def post_message(self, tem, a, k, ret, tok):
        self.msg_depth -= 1
        if tok is None:
            return
        itask = a[0]
        message = a[2]
        status0, outs0, sn0, flag, sn = tok
        if flag == tem.FLAG_RECEIVED and sn is not None and sn != sn0:
            self.res.sim.probe('stale_submit_message')
            if (itask.state.status != status0 or
                    frozenset(names_of(itask)) != outs0):
                self.v('C10', 'stale_message_changed_state', {
                    'task': itask.identity, 'message': message,
                    'msg_submit': sn, 'task_submit': sn0,
                    'status': [status0, itask.state.status]})
        # a received message for an earlier stage than the task has reached
        # must not move the status back (whatever process_message returned)
        rank = {'submitted': 1, 'started': 2, 'succeeded': 3, 'failed': 3}
        srank = {'submitted': 1, 'running': 2, 'succeeded': 3, 'failed': 3}
        m0 = str(message).split('/')[0]
        if (flag == tem.FLAG_RECEIVED and (sn is None or sn == sn0)
                and m0 in rank and status0 in srank
                and rank[m0] < srank[status0]
                and itask.state.status != status0):
            self.v('C10', 'received_message_moved_status_backwards', {
                'task': itask.identity, 'message': message,
                'status': [status0, itask.state.status]})
        if ret is True:
            self.res.sim.probe('backward_message_poll_requested')
            if itask.state.status != status0:
                self.v('C10', 'backward_message_changed_status', {
                    'task': itask.identity, 'message': message,
                    'status': [status0, itask.state.status]})
            if flag == tem.FLAG_RECEIVED:
                self.poll_expected = getattr(self, 'poll_expected', [])
                self.poll_expected.append(
                    [itask.identity, len(self.res.world.poll_log), None,
                     str(message), id(tem)])
        # C09 monotone outputs and implication
        now = names_of(itask)
        if not outs0 <= now:
            self.v('C09', 'output_uncompleted', {
                'task': itask.identity, 'lost': sorted(outs0 - now)})
        if self.msg_depth == 0 and not self.commands and (
                ('succeeded' in now) or ('failed' in now)):
            if not {'submitted', 'started'} <= now:
                self.v('C09', 'final_without_submitted_started', {
                    'task': itask.identity, 'outputs': sorted(now)})

    # -- pool add / remove (C07, C11) ---------------------------------------
    def on_add_to_pool(self, pool, itask):
        if not self.known(itask):
            return
        t, p = self.ident(itask)
        prog = self.prog
        self.n_checks += 1
        if p < prog.icp or p > prog.fcp or not self.model.valid(t, p):
            self.v('C07', 'pooled_outside_bounds_or_sequence', {
                'task': itask.identity, 'icp': prog.icp, 'fcp': prog.fcp,
                'valid_points': sorted(self.model._valid.get(t, ()))})
        if not self.model.parentless(t, p):
            self.res.sim.probe('pooled_on_demand')

    def on_remove(self, pool, itask, reason):
        if not self.known(itask) or itask.transient:
            return None
        if itask.identity not in pool.active_tasks.get(itask.point, {}):
            return None
        if reason is None:
            # removed as completed
            outs = names_of(itask)
            if itask.state.status not in FINAL:
                self.v('C11', 'removed_unfinished_as_complete', {
                    'task': itask.identity, 'status': itask.state.status})
            elif not self.model.complete(itask.tdef.name, outs):
                self.v('C11', 'removed_while_incomplete', {
                    'task': itask.identity, 'outputs': sorted(outs)})
            else:
                self.res.sim.probe('removed_complete')
        return None

    # -- runahead (C04) ----------------------------------------------------
    def runahead_limit_model(self, pool_points, pool_items):
        """Independent recomputation of the runahead limit (ints)."""
        prog = self.prog
        ra = prog.runahead or 'P4'
        if not pool_points:
            return None
        base = min(pool_points)
        stop = self.model.stop
        sec_points = []
        n = int(ra[1:]) if ra[1:].isdigit() else None
        if n is not None:
            pts = set()
            for s in prog.sections:
                later = [q for q in s.points if q >= base]
                pts.update(later[:n + 1])
            seq = sorted(pts)
            limit = seq[:n + 1][-1] if seq else base
        else:
            # duration limit, in model units
            dur = self.ra_units
            pts = set()
            for s in prog.sections:
                pts.update(q for q in s.points if base <= q <= base + dur)
            limit = max(pts) if pts else base
        # largest future offset among pooled tasks
        # cylc keeps the future offset per task definition (the largest seen
        # by any instance), so use the static per-task maximum: an upper
        # bound, hence a sound release limit
        fut = 0
        for t in {t for t, _ in pool_items}:
            fut = max(fut, self.static_future_offset(t))
        limit += fut
        if limit > stop:
            limit = stop
        return limit

    def static_future_offset(self, t):
        cache = self.__dict__.setdefault('_sfo', {})
        if t in cache:
            return cache[t]
        from .gen import atoms
        prog = self.prog
        best = 0
        for s, e in self.model._lines.get(t, []):
            pts = [p for p in s.points if self.model.valid(t, p)]
            for a in atoms(e):
                for p in pts:
                    q = a.point(p, prog)
                    if q >= prog.icp and q > p:
                        best = max(best, q - p)
        cache[t] = best
        return best

    def on_runahead_release(self, itask):
        schd = self.h.schd
        if schd is None or not hasattr(schd, 'pool'):
            return
        t, p = self.ident(itask)
        if (t, p) in self.manual or itask.is_manual_submit:
            return
        if itask.state.status in FINAL:
            return
        pool = schd.pool
        items = [self.ident(i) for i in pool.get_tasks() if self.known(i)]
        if (t, p) not in items:
            items.append((t, p))
        limit = self.runahead_limit_model([q for _, q in items], items)
        self.n_checks += 1
        if limit is not None and p > limit:
            # known-finding predicate: cylc keeps a limit that has reached the
            # stop point even when a future-triggered child later moves the
            # earliest pool point back
            prev_base = pool._prev_runahead_base_point
            stuck = (
                pool.stop_point is not None
                and str(pool.runahead_limit_point) == str(pool.stop_point)
                and prev_base is not None
                and min(q for _, q in items) < self.prog.ppoint(str(prev_base))
            )
            self.v('C04', 'released_beyond_runahead_limit', {
                'task': itask.identity, 'limit_model': self.prog.pstr(limit),
                'limit_cylc': str(pool.runahead_limit_point),
                'cylc_base_point': str(prev_base),
                'pool': sorted(self.prog.iid(*i) for i in items),
                'predicates': ['limit_stuck_at_stop_point'] if stuck else []})
        if limit is not None and p == limit:
            self.res.sim.probe('runahead_limit_binding')

    # -- queues (C05) ------------------------------------------------------
    def _queue_map(self):
        """Task -> (queue, limit): last queue that lists it, else default."""
        prog = self.prog
        qm = {}
        default_limit = 0
        for q, (lim, members) in prog.queues.items():
            if q == 'default':
                default_limit = lim
        for t in prog.tasks:
            qm[t] = ('default', default_limit)
        for q, (lim, members) in prog.queues.items():
            if q == 'default':
                continue
            for m in members:
                for t in prog.families.get(m, [m]):
                    if t in qm:
                        qm[t] = (q, lim)
        return qm

    def on_queue_push(self, qmgr, itask):
        self.push_seq = getattr(self, 'push_seq', 0) + 1
        self.push_order = getattr(self, 'push_order', {})
        self.push_order[itask.identity] = self.push_seq

    def on_queue_release(self, qmgr, active_before, released):
        if not released and not self.prog.queues:
            return
        schd = self.h.schd
        pool = schd.pool
        # active set per queue from the real pool (independent of the
        # counter cylc passed in)
        act = {}
        rel_ids = {i.identity for i in released}
        for i in pool.get_tasks():
            if not self.known(i):
                continue
            q = self.qmap[i.tdef.name]
            is_active = (i.state.status in ('preparing', 'submitted', 'running')
                         or i.waiting_on_job_prep or i.identity in rel_ids)
            if is_active:
                act.setdefault(q[0], []).append(i)
        self.n_checks += 1
        for qname, tasks in act.items():
            lim = next(l for (qn, l) in self.qmap.values() if qn == qname)
            if not lim:
                continue
            n_rel = [i for i in tasks if i.identity in rel_ids]
            if not n_rel:
                continue
            # (a manually triggered member counts like any other: it may
            # take the queue over its limit, the queue itself may not
            # release on top of it)
            if len(tasks) > lim:
                self.v('C05', 'queue_limit_exceeded', {
                    'queue': qname, 'limit': lim,
                    'active': sorted(i.identity for i in tasks),
                    'released_now': sorted(i.identity for i in n_rel)})
            if len(tasks) == lim:
                self.res.sim.probe('queue_limit_binding')
        for i in released:
            if i.state.is_held:
                self.v('C05', 'held_task_released_from_queue',
                       {'task': i.identity})
        # FIFO: a released task must not have been queued after a still
        # queued, unheld member of the same queue
        order = getattr(self, 'push_order', {})
        still = [i for i in pool.get_tasks()
                 if i.state.is_queued and not i.state.is_held
                 and i.identity not in rel_ids and self.known(i)]
        for r in released:
            if not self.known(r):
                continue
            qr = self.qmap[r.tdef.name][0]
            for s in still:
                if self.qmap[s.tdef.name][0] != qr:
                    continue
                if order.get(s.identity, 1e18) < order.get(r.identity, -1):
                    self.v('C05', 'queue_release_out_of_order', {
                        'released': r.identity, 'still_queued': s.identity,
                        'queue': qr})

    # -- preparation entry (C06, C31, C32) -----------------------------------
    def on_prep(self, tjm, itasks):
        for itask in itasks:
            if not self.known(itask):
                continue
            if itask.state.status == 'preparing':
                continue    # re-entry
            ident = self.ident(itask)
            if itask.state.is_held and not itask.is_manual_submit and (
                    ident not in self.manual):
                self.v('C06', 'held_task_entered_preparation', {
                    'task': itask.identity})
            if itask.state.status == 'expired':
                self.v('C32', 'expired_task_entered_preparation', {
                    'task': itask.identity})
        return None

    # -- shutdown / stall (C03) ----------------------------------------------
    def on_set_stop(self, schd, mode):
        from cylc.flow.workflow_status import StopMode
        self.set_stop_seen.append((CLOCK.t, str(mode)))
        if mode != StopMode.AUTO or not hasattr(schd, 'pool'):
            return None
        self.res.sim.probe('auto_shutdown_decision')
        stop = schd.pool.stop_point
        bad = []
        for i in schd.pool.get_tasks():
            st = i.state
            if st.status in ('preparing', 'submitted', 'running'):
                bad.append((i.identity, 'active ' + st.status))
            elif st.status == 'waiting' and not st.is_runahead:
                bad.append((i.identity, 'released waiting task'))
            elif st.status in FINAL and not i.state.outputs.is_complete():
                bad.append((i.identity, 'finished but incomplete'))
            elif st.status == 'waiting' and (stop is None or i.point <= stop):
                unsat = [p for p in st.prerequisites if not p.is_satisfied()]
                part = any(any(p._satisfied.values()) for p in unsat)
                if unsat and part:
                    bad.append((i.identity, 'partially satisfied within stop point'))
        recent = [m for _, m in self.h.log.records[-6:]]
        by_stop_task = any(m.startswith('Stop task ') or
                           m.startswith('Wall clock stop time reached')
                           for m in recent)
        if bad and not by_stop_task:
            self.v('C03', 'premature_auto_shutdown', {'pool': bad[:10]})
        return None

    def on_stall_check(self, schd, result):
        if not result or self.stall_reports or not hasattr(schd, 'pool'):
            if result:
                return
            return
        self.stall_reports += 1
        self.res.sim.probe('stall_reported')
        # a stall may only be reported when nothing can progress by itself
        now = CLOCK.t
        offenders = []
        for i in schd.pool.get_tasks():
            st = i.state
            if st.status in ('preparing', 'submitted', 'running'):
                offenders.append((i.identity, st.status))
            elif (st.status == 'waiting' and not st.is_held
                  and all(p.is_satisfied() for p in st.prerequisites)
                  and not st.is_runahead):
                offenders.append((i.identity, 'ready or waiting on xtrigger/retry'))
        if self.res.world.pending_msgs or any(
                j.active(now) for j in self.res.world.jobs.values()):
            # a live job can still report: only a violation if the scheduler
            # believes nothing is active (that is fine) -- it does, so skip
            pass
        if offenders:
            self.v('C03', 'false_stall', {'can_progress': offenders[:10]})

    # -- per-iteration checks (C26, C09 monotone, C03 starvation) -------------
    def on_iteration_end(self, h):
        schd = h.schd
        if schd is None or not hasattr(schd, 'pool'):
            return
        pool = schd.pool
        self.n_checks += 1
        # C10: a backward message is answered by a poll of that job (unless
        # the task has meanwhile left the pool or gone back to waiting,
        # which poll_task_jobs skips): by the end of the iteration that
        # handled the message the jobs-poll command has run, is running or
        # waits in the process pool's queue
        def _poll_pending(ident):
            pp = schd.proc_pool
            ctxs = [q[0] for q in getattr(pp, 'queuings', [])] + [
                r[1] for r in getattr(pp, 'runnings', [])]
            for ctx in ctxs:
                cmd = getattr(ctx, 'cmd', None) or []
                if getattr(ctx, 'cmd_key', None) == 'jobs-poll' and any(
                        str(a_).startswith(ident + '/') for a_ in cmd):
                    return True
            return False
        for e in getattr(self, 'poll_expected', []):
            ident, idx, _since, msg, owner = e
            if owner != id(schd.task_events_mgr):
                continue        # registered before a restart
            if any(jd.startswith(ident + '/')
                   for _t, jds in self.res.world.poll_log[idx:] for jd in jds
                   ) or _poll_pending(ident):
                self.res.sim.probe('backward_message_polled')
                continue
            live = [i for i in pool.get_tasks() if i.identity == ident]
            if not live or live[0].state.status == 'waiting' or (
                    schd.stop_mode is not None):
                continue
            self.v('C10', 'backward_message_not_followed_by_poll', {
                'task': ident, 'message': msg})
        self.poll_expected = []
        # C26: internal consistency
        flat = [i for m in pool.active_tasks.values() for i in m.values()]
        cached = pool.get_tasks()
        if sorted(map(id, flat)) != sorted(map(id, cached)):
            self.v('C26', 'cached_task_list_differs', {
                'true': sorted(i.identity for i in flat),
                'cached': sorted(i.identity for i in cached)})
        for point, m in pool.active_tasks.items():
            if not m:
                self.v('C26', 'empty_cycle_bucket', {'point': str(point)})
            for ident, i in m.items():
                if ident != i.identity or i.point != point:
                    self.v('C26', 'misfiled_task', {'key': ident,
                                                   'task': i.identity})
        ids = [i.identity for i in flat]
        if len(ids) != len(set(ids)):
            self.v('C26', 'duplicate_proxy', {'ids': sorted(ids)})
        # C26: DB table == pool
        self.check_db_pool(h, flat)
        # C09: outputs monotone across iterations
        for i in flat:
            now = names_of(i)
            prev = self.last_outputs.get(i.identity)
            if prev is not None and not prev <= now and not self.commands:
                self.v('C09', 'output_uncompleted', {
                    'task': i.identity, 'lost': sorted(prev - now)})
            self.last_outputs[i.identity] = now
        for k in list(self.last_outputs):
            if k not in ids:
                del self.last_outputs[k]
        # C11: finished tasks still pooled must be incomplete
        for i in flat:
            if (self.known(i) and i.state.status in FINAL
                    and not self.commands):
                outs = names_of(i)
                if self.model.complete(i.tdef.name, outs) and not i.flow_wait:
                    self.v('C11', 'complete_task_retained', {
                        'task': i.identity, 'outputs': sorted(outs)})
                else:
                    self.res.sim.probe('incomplete_task_retained')
        # pool-state digest for coverage
        dig = hash(tuple(sorted(
            (i.identity, i.state.status, i.state.is_held, i.state.is_queued,
             i.state.is_runahead) for i in flat)))
        self.res.pool_digests.add(f'{dig & 0xffffffffffff:012x}')
        self.check_sequential(flat)
        self.check_starvation(schd, flat)

    # -- starvation at quiescence (C03) ---------------------------------------
    K_IDLE = 6

    def check_starvation(self, schd, flat):
        """Nothing is happening (no job alive, no message or subprocess in
        flight, no status change for K iterations) and the scheduler is not
        paused, stopping or stalled: then no ready task may be left."""
        n_tr = len(self.transitions)
        world = self.res.world
        busy = (not world.quiescent()) or schd.proc_pool.is_not_done()
        rc = self.__dict__.setdefault('_ready_count', {})
        if busy or n_tr != getattr(self, '_last_ntr', -1) or (
                schd.is_paused or schd.stop_mode or schd.is_stalled
                or schd.reload_pending):
            self._last_ntr = n_tr
            rc.clear()
            return
        self.res.sim.probe('quiescence_checked')
        seen = set()
        now = CLOCK.epoch + CLOCK.t
        items = [self.ident(i) for i in flat if self.known(i)]
        limit = self.runahead_limit_model([q for _, q in items], items)
        for i in flat:
            st = i.state
            if st.status != 'waiting' or st.is_held or not self.known(i):
                continue
            if not all(p.is_satisfied() for p in st.prerequisites):
                continue
            if not st.xtriggers_all_satisfied() or (
                    not st.external_triggers_all_satisfied()):
                continue
            if any(tm.timeout is not None and tm.timeout > now
                   for tm in i.try_timers.values()):
                continue
            t, p = self.ident(i)
            # the task itself must have been ready through K idle iterations
            seen.add(i.identity)
            rc[i.identity] = rc.get(i.identity, 0) + 1
            if rc[i.identity] < self.K_IDLE:
                continue
            rc[i.identity] = 0
            if st.is_runahead:
                if limit is not None and p <= limit:
                    self.v('C03', 'ready_task_left_runahead_limited', {
                        'task': i.identity,
                        'limit_model': self.prog.pstr(limit),
                        'limit_cylc': str(schd.pool.runahead_limit_point)})
                continue
            self.v('C03', 'ready_task_left_unsubmitted', {
                'task': i.identity, 'queued': st.is_queued})
        for k in list(rc):
            if k not in seen:
                del rc[k]

    def check_db_pool(self, h, flat):
        dbpath = h.schd.workflow_db_mgr.pri_path
        if not os.path.exists(dbpath):
            return
        try:
            con = sqlite3.connect(f'file:{dbpath}?mode=ro', uri=True)
            rows = con.execute(
                'SELECT cycle, name, flow_nums, status, is_held FROM task_pool'
            ).fetchall()
            con.close()
        except sqlite3.Error as exc:
            raise HarnessError(f'cannot read private DB: {exc}')
        from cylc.flow.util import deserialise_set
        db = {}
        for cycle, name, fn, status, held in rows:
            db[f'{cycle}/{name}'] = (status, tuple(sorted(deserialise_set(fn))),
                                     bool(held))
        real = {i.identity: (i.state.status, tuple(sorted(i.flow_nums)),
                             bool(i.state.is_held)) for i in flat}
        if db != real:
            diff = {k: (db.get(k), real.get(k))
                    for k in set(db) | set(real) if db.get(k) != real.get(k)}
            self.v('C26', 'task_pool_table_differs_from_pool', {
                'db_vs_pool': {k: [list(map(str, v[0])) if v[0] else None,
                                   list(map(str, v[1])) if v[1] else None]
                               for k, v in list(diff.items())[:6]}})

    # -- sequential (C31) ---------------------------------------------------
    def check_sequential(self, flat):
        seqs = [t for t in self.prog.tasks.values() if t.sequential]
        if not seqs:
            return
        now = CLOCK.t
        for t in seqs:
            active = [k for k, j in self.res.world.jobs.items()
                      if k[1] == t.name and j.active(now)]
            pts = {k[0] for k in active}
            if len(pts) > 1:
                self.v('C31', 'sequential_instances_overlap', {
                    'task': t.name, 'active': sorted(map(str, active))})
