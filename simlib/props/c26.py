"""C26 Pool bookkeeping (engine E1, exploration). See DESIGN.md section 7."""
from .common import generic_run, FinalDbMonitor, launched_instances

PID = 'C26'
ENGINE = 'E1'
LEVEL = 'exploration'
RULE = ('One case = generated workflow run to its end under a seeded schedule, in half of the cases with a seeded operator-command mix (hold/release, set, trigger incl. --flow=new, remove incl. --flow=N, stop --flow=N, pause/resume, reload, stop point) injected at main-loop interception points; after every main-loop iteration the pool dictionaries, the cached task list and the task_pool table (read through a separate read-only connection) are compared. Distinct = distinct (program, schedule digest); non-trivial = the pool changed membership at least 4 times.')
ASSUMPTIONS = [
    'jobs, polls, submissions, message transport and the clock are simulated',
    'reference model / invariants cover the generated workflow sub-language',
]
TIERS = {
    'quick': {'n': 800, 'budget_s': 420, 'chunk': 10},
    'thorough': {'n': 16000, 'budget_s': 3000, 'chunk': 25},
}
EXPECTED_PROBES = ['removed_complete', 'pooled_on_demand', 'with_commands']


def make_params(seed, tier):
    return {'seed': seed}

def run_with_commands(params):
    """Same comparison after every iteration, with an operator-command mix
    (hold/release, set, trigger incl. --flow=new, remove incl. --flow=N,
    stop --flow=N, pause/resume, reload, stop point)."""
    import random
    from ..core import derive_seed
    from ..e1 import Case, CommandDriver, run_case
    from ..monitors import InvariantMonitor
    from ..refmodel import Model
    from .c25 import gen_commands
    from .common import (LaunchMonitor, RATES_NONE, RATES_SCHED, base_stats,
                         sample_of, swarm_gkw, viol_dicts)
    seed = params['seed']
    rng = random.Random(derive_seed(seed, 'c26cmd'))
    case = Case(seed, knobs={'span': (2, 5), 'n_tasks': (2, 6)},
                rates=[RATES_NONE, RATES_SCHED][(seed // 2) % 2],
                policy='any', plan_kw={'p_fail': 0.3}, gkw=swarm_gkw(rng))
    case.choices = params.get('choices')
    case.build()
    cmds = params.get('cmds') or gen_commands(
        rng, case.prog, Model(case.prog, None), 25)
    if not params.get('cmds') and rng.random() < 0.35:
        # flow commands change flow numbers in place: make sure they occur
        cmds = list(cmds) + [
            {'iter': rng.randint(1, 12), 'slot': rng.randint(0, 1),
             'name': 'stop', 'kwargs': {'mode': None,
                                        'flow_num': rng.randint(1, 2)}}]
    res = run_case(case, monitors=[
        LaunchMonitor(check_prereqs=False), InvariantMonitor(commands=True),
        CommandDriver([dict(c) for c in cmds])])
    if res.error:
        return {'error': res.error, 'violations': [], 'stats': {}}
    res.sim.probe('with_commands')
    nontriv = None
    pr = res.sim.probes
    if getattr(res, 'commands_done', None) and (
            pr.get('removed_complete', 0) + pr.get('pooled_on_demand', 0) >= 2):
        nontriv = [res.prog.render(), [(c.get('iter'), c['name'],
                                        str(c['kwargs'])) for c in cmds],
                   res.sim.hexdigest()]
    return {'violations': viol_dicts(res, PID, {}),
            'stats': base_stats(res, nontriv),
            'sample': sample_of(res, {'commands': [
                (c.get('iter'), c['name'], str(c['kwargs'])) for c in cmds]})}


def run(params):
    if params['seed'] % 2:
        return run_with_commands(params)
    r = generic_run(PID, params, policy='any', plan_kw={'p_fail': 0.3})
    st = r.get('stats') or {}
    pr = st.get('probes', {})
    if pr.get('removed_complete', 0) + pr.get('pooled_on_demand', 0) < 4:
        st['nontrivial'] = []
    return r
