"""C26 Pool bookkeeping (engine E1, exploration). See DESIGN.md section 7."""
from .common import generic_run, FinalDbMonitor, launched_instances

PID = 'C26'
ENGINE = 'E1'
LEVEL = 'exploration'
RULE = ('One case = generated workflow run to its end under a seeded schedule; after every main-loop iteration the pool dictionaries, the cached task list and the task_pool table (read through a separate read-only connection) are compared. Distinct = distinct (program, schedule digest); non-trivial = the pool changed membership at least 4 times.')
ASSUMPTIONS = [
    'jobs, polls, submissions, message transport and the clock are simulated',
    'reference model / invariants cover the generated workflow sub-language',
]
TIERS = {
    'quick': {'n': 800, 'budget_s': 420, 'chunk': 10},
    'thorough': {'n': 16000, 'budget_s': 3000, 'chunk': 25},
}
EXPECTED_PROBES = ['removed_complete', 'pooled_on_demand']


def make_params(seed, tier):
    return {'seed': seed}

def run(params):
    r = generic_run(PID, params, policy='any', plan_kw={'p_fail': 0.3})
    st = r.get('stats') or {}
    pr = st.get('probes', {})
    if pr.get('removed_complete', 0) + pr.get('pooled_on_demand', 0) < 4:
        st['nontrivial'] = []
    return r
