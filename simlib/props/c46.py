"""C46 Warm starts and start tasks (engine E1, exploration). See DESIGN.md section 7."""
from .common import generic_run, FinalDbMonitor, launched_instances

PID = 'C46'
ENGINE = 'E1'
LEVEL = 'exploration'
RULE = ('One case = generated workflow started with --startcp after the initial cycle point (on and off the sequences; a third of the cases have a sequential special task) + all-complete outcome plan + seeded schedule. Every launch is checked against the start point; the set of launched instances is compared with the model closure in which dependencies on pre-start instances count as satisfied. Distinct = distinct (program, start point, schedule digest); non-trivial = some launched instance has a prerequisite atom that points before the start point (and at/after the initial point).')
ASSUMPTIONS = [
    'jobs, polls, submissions, message transport and the clock are simulated',
    'reference model / invariants cover the generated workflow sub-language',
]
TIERS = {
    'quick': {'n': 1000, 'budget_s': 420, 'chunk': 10},
    'thorough': {'n': 20000, 'budget_s': 3000, 'chunk': 25},
}
EXPECTED_PROBES = ['prestart_dependency_satisfied', 'warm_start']


def make_params(seed, tier):
    return {'seed': seed}

from . import c01
from ..gen import atoms

KNOBS = {'p_offset': 0.5, 'span': (3, 6), 'n_sections': (1, 3),
         'p_runahead': 0.4}


def prog_hook(prog, rng):
    if prog.fcp - prog.icp >= 1:
        prog.start = rng.randint(prog.icp + 1, prog.fcp)
    # a third of the cases: a sequential special task (its implicit
    # dependence on the previous instance counts as satisfied before the
    # start point like any other) -- separate stream
    import random
    r2 = random.Random(repr(rng.getstate()[1][:4]))
    if r2.random() < 0.33:
        # (only a task that must succeed: with an optional success the
        # next instance may wait for ever, which is cylc's design and not
        # modelled)
        failing = {a.task for s_ in prog.sections for e, _t in s_.lines
                   if e is not None for a in atoms(e) if a.output == 'failed'}
        names = sorted(n for n, t in prog.tasks.items()
                       if not t.opt.get('succeeded') and n not in failing)
        if names:
            prog.tasks[names[r2.randrange(len(names))]].sequential = True


def end_check(res, mode):
    prog, model = res.prog, res.model
    if prog.start is None:
        return {}
    res.sim.probe('warm_start')
    for t, key in res.launches:
        if key[1] in prog.tasks and prog.ppoint(key[0]) < prog.start:
            res.violate('launched_before_start_point', {
                'job': list(key), 'start': prog.pstr(prog.start)})
    preds, clo, launched = c01.end_checks(res)
    # the parentless-chain finding belongs to C01 (known finding C01-F1)
    for rule, detail in res.violations:
        if rule == 'parentless_chain_broken':
            detail['property'] = 'C01'
    for (t, p) in launched:
        for e in model.prereq_exprs(t, p):
            if any(prog.icp <= a[1] < prog.start for a in model.conc_atoms(e)):
                res.sim.probe('prestart_dependency_satisfied')
    return preds


def run(params):
    return generic_run(PID, params, knobs=KNOBS, policy='complete',
                       prog_hook=prog_hook, end_check=end_check,
                       probe_key='prestart_dependency_satisfied')
