"""C33 Xtriggers are called with the documented discipline (engine E1)."""
import random

from ..boot import CLOCK
from ..core import derive_seed
from ..e1 import Case, Monitor, run_case
from ..monitors import InvariantMonitor, _wrap
from .common import (
    LaunchMonitor, RATES_NONE, RATES_SCHED, base_stats, sample_of, swarm_gkw,
    unexpected_stop, viol_dicts,
)

PID = 'C33'
ENGINE = 'E1'
LEVEL = 'exploration'
RULE = (
    'One case = generated workflow whose tasks depend on 1-3 xtrigger labels '
    '(labels sharing a function signature, per-cycle signatures via '
    '%(point)s, call intervals 2-10 s) + a per-signature result sequence '
    '(k times false / error / garbage output, then true) + seeded call '
    'latencies, pool size 1-4 (contention) and main-loop stalls. Requests '
    'are observed at SubProcPool.put_command and completions at the xtrigger '
    'callback. Per signature: at most one call in flight; consecutive '
    'requests at least the interval apart on the clock the scheduler reads; '
    'no request after a success while a pooled task still depended on it; '
    'every dependent task becomes satisfied and the run finishes. A share of the cases reloads the unchanged definition once in mid-run. Distinct = '
    'distinct (program, result sequences, schedule digest); non-trivial = '
    'some signature was called at least twice and one signature was shared '
    'by two pooled tasks.')
ASSUMPTIONS = ['xtrigger functions run as simulated child processes; their '
               'module only has to be importable for validation']
TIERS = {
    'quick': {'n': 800, 'budget_s': 420, 'chunk': 10},
    'thorough': {'n': 16000, 'budget_s': 3000, 'chunk': 25},
}
EXPECTED_PROBES = ['xtrig_called_twice', 'xtrig_shared_signature',
                   'xtrig_error_result', 'xtrig_success']
KNOBS = {'n_tasks': (2, 4), 'span': (2, 4), 'p_retries': 0.1,
         'p_runahead': 0.3, 'max_lines': 3}
SIMX = '''
def simx(*args, **kwargs):
    """Stand-in xtrigger (never executed: calls go to the simulated world)."""
    return (True, {})
'''


def make_params(seed, tier):
    return {'seed': seed}


class XtrigWatch(Monitor):
    def __init__(self, intervals):
        self.intervals = intervals   # func args prefix -> seconds, by label
        self.req = {}        # sig -> [t_request]
        self.inflight = {}   # sig -> t_request
        self.success = {}    # sig -> t
        self.nodep_since_success = {}

    def attach(self, h, res, case):
        global _CUR
        self.res = res
        self.h = h
        install()
        _CUR = self
        h.iter_hooks.append(self.iter_end)
        self.unsat_age = {}

    def finish(self, h, res, case):
        global _CUR
        _CUR = None

    def on_put(self, ctx):
        from cylc.flow.subprocctx import SubFuncContext
        if not isinstance(ctx, SubFuncContext):
            return
        sig = ctx.get_signature()
        now = CLOCK.t
        if sig in self.inflight:
            self.res.violate('xtrigger_called_while_previous_call_in_flight', {
                'signature': sig, 'previous_request': self.inflight[sig],
                'now': now})
        prev = self.req.get(sig, [])
        if prev:
            self.res.sim.probe('xtrig_called_twice')
            if now - prev[-1] < ctx.intvl - 1e-6:
                self.res.violate('xtrigger_called_before_interval_elapsed', {
                    'signature': sig, 'previous': prev[-1], 'now': now,
                    'interval': ctx.intvl})
        if sig in self.success and not self.nodep_since_success.get(sig):
            self.res.violate('xtrigger_called_again_after_success', {
                'signature': sig, 'succeeded_at': self.success[sig],
                'now': now})
        self.req.setdefault(sig, []).append(now)
        self.inflight[sig] = now

    def on_callback(self, ctx):
        import json
        sig = ctx.get_signature()
        self.inflight.pop(sig, None)
        if ctx.ret_code != 0:
            self.res.sim.probe('xtrig_error_result')
        try:
            ok, _ = json.loads(ctx.out)
        except (ValueError, TypeError):
            return
        if ok:
            self.res.sim.probe('xtrig_success')
            self.success[sig] = CLOCK.t
            self.nodep_since_success[sig] = False

    def on_housekeep(self, xm, itasks):
        """The moment cylc may forget succeeded results: recompute, from the
        pool itself, which signatures are still needed by some task."""
        needed = set()
        # (from the pool as it is now, not from the list cylc passes in)
        if self.h.schd is not None and hasattr(self.h.schd, 'pool'):
            itasks = self.h.schd.pool.get_tasks()
        for i in itasks:
            for label, sat in i.state.xtriggers.items():
                if sat:
                    continue
                try:
                    needed.add(xm.get_xtrig_ctx(i, label).get_signature())
                except Exception:
                    continue
        for sig in list(self.success):
            if sig not in needed:
                # nobody needs it any more: a later dependent starts afresh
                del self.success[sig]
                self.nodep_since_success.pop(sig, None)
                self.req[sig] = []

    def iter_end(self, h):
        schd = h.schd
        xm = schd.xtrigger_mgr
        deps = {}
        for i in schd.pool.get_tasks():
            for label, sat in i.state.xtriggers.items():
                if label.startswith('_cylc'):
                    continue
                try:
                    sig = xm.get_xtrig_ctx(i, label).get_signature()
                except Exception:
                    continue
                deps.setdefault(sig, []).append((i, label, sat))
        for sig, lst in deps.items():
            if len({i.identity for i, _, _ in lst}) > 1:
                self.res.sim.probe('xtrig_shared_signature')
            if sig not in self.success:
                continue
            for i, label, sat in lst:
                key = (i.identity, label)
                st = i.state
                if sat or st.status != 'waiting' or st.is_runahead or st.is_queued:
                    self.unsat_age.pop(key, None)
                    continue
                self.unsat_age[key] = self.unsat_age.get(key, 0) + 1
                if self.unsat_age[key] == 4:
                    self.res.violate('dependent_task_not_satisfied_after_success', {
                        'task': i.identity, 'label': label, 'signature': sig,
                        'succeeded_at': self.success[sig]})


_CUR = None
_DONE = False


def install():
    global _DONE
    if _DONE:
        return
    from cylc.flow.subprocpool import SubProcPool
    from cylc.flow.xtrigger_mgr import XtriggerManager
    import simlib.monitors as mon
    saved = mon.CTX

    def before_put(c, s, a, k):
        if _CUR is not None:
            _CUR.on_put(a[0])

    def before_cb(c, s, a, k):
        if _CUR is not None:
            _CUR.on_callback(a[0])
    # (the generic wrapper dispatches only while a monitor context is
    # active; InvariantMonitor is always attached in E1 runs)
    _wrap(SubProcPool, 'put_command', before=before_put)
    _wrap(XtriggerManager, 'callback', before=before_cb)

    def before_hk(c, s, a, k):
        if _CUR is not None:
            _CUR.on_housekeep(s, list(a[0]))
    _wrap(XtriggerManager, 'housekeep', before=before_hk)
    _DONE = True


def prog_hook_factory(rng):
    def hook(prog, r2):
        names = list(prog.tasks)
        nlab = rng.randint(1, 3)
        # (labels may share a signature; one interval per signature, and
        # templates that cannot collide after %(point)s substitution)
        sigs = ['simx(1)', 'simx("c", %(point)s)', 'simx(2, k="v")']
        intv = {sg: rng.choice([2, 5, 10]) for sg in sigs}
        for i in range(nlab):
            sig = rng.choice(sigs[:2] if i else sigs)
            prog.xtrig_defs[f'x{i}'] = f'{sig}:PT{intv[sig]}S'
        labels = list(prog.xtrig_defs)
        for n in rng.sample(names, rng.randint(1, len(names))):
            prog.tasks[n].xtriggers = rng.sample(
                labels, rng.randint(1, len(labels)))
        if rng.random() < 0.3:
            prog.extra_sched.append('sequential xtriggers = True')
    return hook


def run(params):
    seed = params['seed']
    rng = random.Random(derive_seed(seed, 'c33'))
    gkw = swarm_gkw(rng)
    gkw['pool_size'] = rng.choice([1, 1, 2, 4])
    fails = {}

    def xplan(sig, n):
        k = fails.setdefault(sig, random.Random(
            derive_seed(seed, 'xplan', sig)).choice([0, 0, 1, 2, 3]))
        if n < k:
            return random.Random(derive_seed(seed, 'xr', sig, n)).choice(
                [False, False, 'error', 'garbage'])
        return True
    case = Case(seed, knobs=KNOBS, rates=[RATES_NONE, RATES_SCHED][seed % 2],
                policy='complete', gkw=gkw,
                world_cfg={'xtrig_plan': xplan,
                           'xtrig_lat': (0.0, 1.0, 4.0, 12.0)})
    case.choices = params.get('choices')
    case.build()
    prog_hook_factory(rng)(case.prog, rng)
    case.extra_files = {'lib/python/simx.py': SIMX}
    xw = XtrigWatch({})
    stall = rng.random() < 0.3

    def setup(h, res, c):
        if stall:
            def gap(hh):
                if h.sim.flip('loop_stall', 0.15):
                    return h.sim.choose(3, 'stall') * 4.0 + 3.0
                return 0
            h.sim.rates['loop_stall'] = 0.15
            h.stall_gap = gap
    from .common import reload_monitors
    res = run_case(case, monitors=[LaunchMonitor(), InvariantMonitor(), xw] +
                   reload_monitors(seed, 'c33', 4),
                   setup=setup)
    if res.error:
        return {'error': res.error, 'violations': [], 'stats': {}}
    if unexpected_stop(res.stops[-1]):
        res.violate('run_did_not_finish', {
            'stop': res.stops[-1], 'log_tail': res.log_tail[-5:],
            'unsatisfied': 'xtrigger-gated tasks never became ready'})
    nontriv = None
    if res.sim.probes.get('xtrig_called_twice') and res.sim.probes.get(
            'xtrig_shared_signature'):
        nontriv = [res.prog.render(), sorted(fails.items()), res.sim.hexdigest()]
    return {'violations': viol_dicts(res, PID, {}),
            'stats': base_stats(res, nontriv),
            'sample': sample_of(res, {
                'xtriggers': res.prog.xtrig_defs,
                'false_results_before_success': fails,
                'requests': {k: v[:6] for k, v in xw.req.items()}})}
