"""C29 Manually set outputs behave like naturally completed outputs
(engine E1, exploration)."""
import json
import os
import random
import sqlite3

from ..boot import CLOCK
from ..core import derive_seed
from ..e1 import Case, CommandDriver, Monitor, run_case
from ..gen import atoms, msg_of
from ..monitors import InvariantMonitor
from .common import (
    LaunchMonitor, RATES_NONE, base_stats, launched_instances, sample_of,
    swarm_gkw, unexpected_stop, viol_dicts,
)

PID = 'C29'
ENGINE = 'E1'
LEVEL = 'exploration'
RULE = (
    'One case = generated workflow started paused + 1-4 `cylc set` commands '
    'at seeded interception points on pooled and not yet spawned instances: '
    'output selections (standard, custom, several, none) and prerequisite '
    'selections (some the task has, some it does not, "all"); then the '
    'workflow is resumed and runs on. After each command (end of the same '
    'main-loop iteration): the recorded outputs of the target contain the '
    'requested outputs and the earlier outputs they imply (or, with none '
    'given, the required outputs plus submitted, started, succeeded); the '
    'target is never submitted/running through the command; every child of '
    'a newly completed output per the graph model is pooled with that '
    'prerequisite satisfied, and nothing else was spawned; prerequisites the '
    'task does not have change nothing; a target whose prerequisites were all '
    'set runs after the resume. In a third of the cases the workflow runs '
    'normally instead and outputs (failed, succeeded, started, default) are '
    'set on tasks that have a live job, some with execution retries left: '
    'at the end of that iteration the requested and implied outputs are '
    'recorded. Distinct = distinct (program, command list); '
    'non-trivial = a command completed an output that has at least one child, '
    'or satisfied a prerequisite of an unspawned instance.')
ASSUMPTIONS = ['commands are checked at the end of the main-loop iteration '
               'in which they are actioned (scheduler paused: nothing else '
               'changes state meanwhile)']
TIERS = {
    'quick': {'n': 600, 'budget_s': 420, 'chunk': 8},
    'thorough': {'n': 12000, 'budget_s': 3000, 'chunk': 20},
}
EXPECTED_PROBES = ['set_on_active_task', 'set_failed_on_task_with_retries', 'set_output_with_children', 'set_on_unspawned',
                   'set_default_outputs', 'set_prereq_all', 'set_prereq_some',
                   'set_prereq_foreign']
KNOBS = {'span': (2, 4), 'n_tasks': (2, 5), 'p_custom': 0.5,
         'p_runahead': 0.2, 'p_retries': 0.1}
IMPLIED = {'succeeded': ['submitted', 'started'],
           'failed': ['submitted', 'started'], 'started': ['submitted']}


def make_params(seed, tier):
    return {'seed': seed}


def gen_cmds(rng, prog, model):
    names = list(prog.tasks)
    valid = [(t, p) for t in names for p in sorted(model._valid[t])]
    cmds = []
    for k in range(rng.randint(1, 4)):
        t, p = rng.choice(valid)
        task = prog.tasks[t]
        if rng.random() < 0.6:
            pool = ['succeeded', 'started', 'submitted', 'failed'] + list(task.customs)
            r = rng.random()
            if r < 0.25:
                outs = None
            elif r < 0.8:
                outs = [rng.choice(pool)]
            else:
                outs = rng.sample(pool, min(len(pool), 2))
            cmds.append({'iter': 2 + k, 'slot': rng.randint(0, 1), 'name': 'set',
                         'kwargs': {'tasks': [prog.iid(t, p)], 'flow': [],
                                    'outputs': outs}, 'target': [t, p]})
        else:
            own = sorted({(a[0], a[1], a[2]) for e in model.prereq_exprs(t, p)
                          for a in model.conc_atoms(e) if a[1] >= prog.icp})
            r = rng.random()
            if r < 0.3 or not own:
                pre = ['all']
            else:
                pre = [f'{prog.pstr(a[1])}/{a[0]}:{a[2]}'
                       for a in rng.sample(own, rng.randint(1, len(own)))]
                if rng.random() < 0.4:
                    ot, op = rng.choice(valid)
                    pre.append(f'{prog.pstr(op)}/{ot}:succeeded')
            cmds.append({'iter': 2 + k, 'slot': rng.randint(0, 1), 'name': 'set',
                         'kwargs': {'tasks': [prog.iid(t, p)], 'flow': [],
                                    'prerequisites': pre}, 'target': [t, p]})
    cmds.append({'at_time': 30.0, 'name': 'resume', 'kwargs': {}})
    return cmds


def gen_live_cmds(rng):
    """Live mode: outputs set on tasks that have a job at that moment."""
    cmds = []
    it = rng.randint(2, 12)
    for k in range(rng.randint(1, 3)):
        r = rng.random()
        outs = (['failed'] if r < 0.35 else ['succeeded'] if r < 0.7
                else ['started'] if r < 0.8 else None)
        cmds.append({'iter': it, 'slot': rng.randint(0, 1), 'name': 'set',
                     'pick': rng.random(),
                     'kwargs': {'flow': [], 'outputs': outs}})
        it += rng.randint(1, 8)
    return cmds


class LiveDriver(CommandDriver):
    def resolve(self, h, c):
        if 'pick' not in c:
            return c['kwargs']
        cand = sorted(i.identity for i in h.schd.pool.get_tasks()
                      if i.state.status in ('submitted', 'running'))
        if not cand:
            cand = sorted(i.identity for i in h.schd.pool.get_tasks())
        if not cand:
            return None
        kw = dict(c['kwargs'])
        kw['tasks'] = [cand[int(c['pick'] * len(cand)) % len(cand)]]
        return kw


def db_outputs(run_dir, cycle, name):
    path = os.path.join(run_dir, '.service', 'db')
    con = sqlite3.connect(f'file:{path}?mode=ro', uri=True)
    try:
        rows = con.execute('SELECT outputs FROM task_outputs WHERE cycle=? '
                           'AND name=?', (cycle, name)).fetchall()
    finally:
        con.close()
    out = set()
    for (o,) in rows:
        try:
            d = json.loads(o) if o else {}
        except ValueError:
            d = {}
        out |= set(d if isinstance(d, dict) else [])
    return out


def pool_view(schd):
    out = {}
    for i in schd.pool.get_tasks():
        pr = {}
        for p in i.state.prerequisites:
            for k, v in p.items():
                pr[(str(k.point), k.task, k.output)] = bool(v)
        out[i.identity] = {'status': i.state.status, 'prereqs': pr,
                           'outputs': set(i.state.outputs.get_completed_outputs())}
    return out


class SetWatch(Monitor):
    def __init__(self, cmds, live=False):
        self.live = live
        self.cmds = cmds
        self.n_seen = 0
        self.before = None
        self.ran_all = []

    def attach(self, h, res, case):
        self.res = res
        self.h = h
        h.pre_iter_hooks.append(self.pre)
        h.iter_hooks.append(self.post)

    def pre(self, h):
        if h.schd is not None and hasattr(h.schd, 'pool'):
            self.before = pool_view(h.schd)
            self.before_db = {}

    def post(self, h):
        done = getattr(self.res, 'commands_done', [])
        new = done[self.n_seen:]
        self.n_seen = len(done)
        sets = [d for d in new if d[3] == 'set']
        if not sets or self.before is None:
            return
        if len(sets) > 1:
            return      # two commands in one iteration: effects overlap
        rec = sets[0]
        if isinstance(rec[5], (list, tuple)) and rec[5] and rec[5][0] is False:
            return      # rejected by validation
        if self.live:
            self.check_live(h, rec)
        else:
            self.check(h, rec)

    def check_live(self, h, rec):
        """Workflow running: only what no concurrent event can undo."""
        res = self.res
        prog = res.prog
        kw = rec[4]
        ident = kw['tasks'][0]
        cyc, name = ident.split('/')
        if name not in prog.tasks:
            return
        task = prog.tasks[name]
        b = self.before.get(ident)
        if b is None:
            return
        res.sim.probe('set_on_active_task')
        outs = kw.get('outputs')
        ref = res.model.referenced_outputs(name)
        if not outs:
            req = {c for c in task.customs if c in ref and not task.opt.get(c)}
            want = req | {'submitted', 'started', 'succeeded'}
        else:
            want = set(outs)
            for o in outs:
                want |= set(IMPLIED.get(o, []))
        pooled = {i.identity: i for i in h.schd.pool.get_tasks()}
        now = pooled.get(ident)
        recorded = db_outputs(h.run_dir, cyc, name)
        if now is not None:
            recorded |= set(now.state.outputs.get_completed_outputs()) | {
                lbl for lbl, _m, done in now.state.outputs if done}
        if 'failed' in want and task.exec_retries:
            res.sim.probe('set_failed_on_task_with_retries')
        if not want <= recorded:
            res.violate('set_outputs_not_all_completed', {
                'task': ident, 'requested': outs, 'expected': sorted(want),
                'recorded': sorted(recorded),
                'status_before': b['status'],
                'status_after': now.state.status if now is not None else None})

    def check(self, h, rec):
        res = self.res
        prog, model = res.prog, res.model
        kw = rec[4]
        ident = kw['tasks'][0]
        cyc, name = ident.split('/')
        p = prog.ppoint(cyc)
        task = prog.tasks[name]
        after = pool_view(h.schd)
        before = self.before
        was_pooled = ident in before
        if not was_pooled:
            res.sim.probe('set_on_unspawned')
        new_members = set(after) - set(before)
        if 'prerequisites' in kw and kw.get('prerequisites'):
            self.check_prereqs(h, rec, ident, name, p, before, after,
                               new_members)
            return
        outs = kw.get('outputs')
        recorded = db_outputs(h.run_dir, cyc, name)
        for i in h.schd.pool.get_tasks():
            if i.identity == ident:
                # (a proxy respawned after an earlier `set` carries the
                # outputs loaded from its history; its new DB row starts
                # empty and "completed already" writes nothing)
                recorded |= set(i.state.outputs.get_completed_outputs())
                recorded |= {lbl for lbl, _m, d in i.state.outputs if d}
        ref = model.referenced_outputs(name)
        if not outs:
            res.sim.probe('set_default_outputs')
            req = {c for c in task.customs if c in ref and not task.opt.get(c)}
            want = req | {'submitted', 'started', 'succeeded'}
        else:
            want = set(outs)
            for o in outs:
                want |= set(IMPLIED.get(o, []))
        prev = before.get(ident, {}).get('outputs', set())
        if not want <= recorded:
            res.violate('set_outputs_not_all_completed', {
                'task': ident, 'requested': outs, 'expected': sorted(want),
                'recorded': sorted(recorded)})
        st = after.get(ident, {}).get('status')
        if st in ('submitted', 'running') and (
                before.get(ident, {}).get('status') not in ('submitted', 'running')):
            res.violate('set_put_task_into_active_state', {
                'task': ident, 'status': st})
        newly = (recorded - prev) if was_pooled else recorded
        # children of newly completed outputs
        expect_kids = {}
        for o in newly:
            for c in model.children(name, p, o):
                if c[1] > model.stop:
                    continue
                if any(a[1] > model.stop for e in model.prereq_exprs(*c)
                       for a in model.conc_atoms(e)):
                    continue
                expect_kids.setdefault(c, set()).add(o)
        if expect_kids:
            res.sim.probe('set_output_with_children')
        for c, os_ in expect_kids.items():
            cid = prog.iid(*c)
            if cid not in after:
                done_before = db_outputs(h.run_dir, prog.pstr(c[1]), c[0])
                if done_before & {'succeeded', 'failed', 'expired',
                                  'submit-failed'}:
                    continue     # already finished in this flow: not re-run
                res.violate('child_of_set_output_not_spawned', {
                    'task': ident, 'outputs': sorted(os_), 'child': cid})
                continue
            for o in os_:
                key = (cyc, name, msg_of(name, o))
                if key in after[cid]['prereqs'] and not after[cid]['prereqs'][key]:
                    res.violate('child_prerequisite_not_satisfied_by_set', {
                        'task': ident, 'output': o, 'child': cid})
        allowed = {prog.iid(*c) for c in expect_kids} | {ident}
        for m in new_members - allowed:
            c2, n2 = m.split('/')
            if n2 in prog.tasks and model.parentless(n2, prog.ppoint(c2)):
                continue
            res.violate('set_spawned_unrelated_task', {
                'task': ident, 'outputs': outs, 'spawned': m})

    def check_prereqs(self, h, rec, ident, name, p, before, after, new_members):
        res = self.res
        prog, model = res.prog, res.model
        pre = rec[4]['prerequisites']
        cyc = prog.pstr(p)
        own = {(prog.pstr(a[1]), a[0], msg_of(a[0], a[2])): a
               for e in model.prereq_exprs(name, p)
               for a in model.conc_atoms(e)}
        named = set()
        foreign = []
        if pre == ['all']:
            res.sim.probe('set_prereq_all')
            named = set(own)
        else:
            for s in pre:
                left, out = s.rsplit(':', 1)
                c, n = left.split('/')
                key = (c, n, msg_of(n, out))
                if key in own:
                    named.add(key)
                else:
                    foreign.append(s)
            res.sim.probe('set_prereq_some')
        if foreign:
            res.sim.probe('set_prereq_foreign')
        if not named and pre != ['all']:
            # nothing valid: the command must change nothing
            if ident not in before and ident in after:
                res.violate('set_foreign_prerequisite_spawned_task', {
                    'task': ident, 'prerequisites': pre})
            return
        if ident not in after:
            if ident not in before and not model.valid(name, p):
                return
            # may legitimately have started running / been removed
            return
        got = after[ident]['prereqs']
        old = before.get(ident, {}).get('prereqs', {})
        for key in named:
            if key in got and not got[key]:
                res.violate('set_prerequisite_not_satisfied', {
                    'task': ident, 'prerequisite': list(key)})
        for key, val in got.items():
            if key in named:
                continue
            base = old.get(key)
            if base is None:
                a = own.get(key)
                base = bool(a is not None and a[1] < model.start)
            if val and not base:
                res.violate('set_satisfied_other_prerequisite', {
                    'task': ident, 'named': sorted(map(list, named)),
                    'also_satisfied': list(key)})
        if named == set(own):
            self.ran_all.append((name, p))


def run(params):
    seed = params['seed']
    rng = random.Random(derive_seed(seed, 'c29'))
    gkw = swarm_gkw(rng)
    live = params.get('live', seed % 3 == 0)
    if live:
        return run_live(params, rng, gkw)
    case = Case(seed, knobs=KNOBS, rates=RATES_NONE, policy='complete',
                gkw=gkw, opts={'paused_start': True})
    case.choices = params.get('choices')
    case.build()
    from ..refmodel import Model
    model = Model(case.prog, None)
    cmds = params.get('cmds') or gen_cmds(rng, case.prog, model)
    manual = set()
    sw = SetWatch(cmds)
    res = run_case(case, monitors=[
        LaunchMonitor(check_prereqs=False), InvariantMonitor(commands=True),
        CommandDriver([dict(c) for c in cmds]), sw])
    if res.error:
        return {'error': res.error, 'violations': [], 'stats': {}}
    if unexpected_stop(res.stops[-1]) and 'inactivity' not in res.stops[-1]:
        res.violate('scheduler_aborted_unexpectedly', {
            'stop': res.stops[-1], 'log_tail': res.log_tail[-6:],
            'property': 'C03'})
    launched = launched_instances(res)
    completed_by_cmd = {tuple(c['target']) for c in cmds
                        if c.get('name') == 'set' and 'outputs' in c['kwargs']}
    for inst in sw.ran_all:
        if inst in completed_by_cmd:
            continue       # a later command completed it without running
        if res.stops[-1] != 'stop:AUTOMATIC':
            continue       # a stall elsewhere may hold it under the runahead limit
        if inst not in launched and inst[1] <= res.model.stop:
            res.violate('task_with_all_prerequisites_set_did_not_run', {
                'task': res.prog.iid(*inst), 'stops': res.stops})
    nontriv = None
    pr = res.sim.probes
    if pr.get('set_output_with_children') or (
            pr.get('set_on_unspawned') and (pr.get('set_prereq_all') or
                                            pr.get('set_prereq_some'))):
        nontriv = [res.prog.render(), [(c.get('iter'), str(c['kwargs']))
                                       for c in cmds]]
    return {'violations': viol_dicts(res, PID, {}),
            'stats': base_stats(res, nontriv),
            'sample': sample_of(res, {
                'commands': [(c.get('iter'), c['name'], str(c['kwargs']))
                             for c in cmds]})}


def run_live(params, rng, gkw):
    seed = params['seed']
    kn = dict(KNOBS)
    kn['p_retries'] = 0.6
    case = Case(seed, knobs=kn, rates=RATES_NONE, policy='complete',
                gkw=gkw, opts={})
    case.choices = params.get('choices')
    case.build()
    cmds = params.get('cmds') or gen_live_cmds(rng)
    sw = SetWatch(cmds, live=True)
    res = run_case(case, monitors=[LiveDriver([dict(c) for c in cmds]), sw])
    if res.error:
        return {'error': res.error, 'violations': [], 'stats': {}}
    resolved = [(d[2], d[3], str(d[4])) for d in res.commands_done]
    nontriv = None
    if res.sim.probes.get('set_on_active_task'):
        nontriv = [res.prog.render(), resolved]
    return {'violations': viol_dicts(res, PID, {}),
            'stats': base_stats(res, nontriv),
            'sample': sample_of(res, {'commands': resolved, 'live': True})}
