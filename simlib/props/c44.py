"""C44 Private workflow files are created owner-only (engine E1 start-up,
fault enumeration over umasks)."""
import glob
import os
import random
import stat

from ..core import derive_seed
from ..e1 import Case, CommandDriver, Monitor, run_case
from .common import base_stats, sample_of, swarm_gkw

PID = 'C44'
ENGINE = 'E1'
LEVEL = 'fault_enumeration'
LEVEL_TEXT = (
    'Enumerates process umasks (thorough: all 64 umasks that leave the owner '
    'bits set, i.e. 0o000..0o077; quick: 0, 0o022, 0o077 and seeded others) x '
    '{fresh start, restart after stop --now, restart after a crash} x {private DB untouched, replaced while down by a plain copy of itself}; the real '
    'start-up sequence creates the database and the keys on tmpfs.')
LEVEL_NOTE = (
    'Trusted: tmpfs honours modes like the real run directory file system; '
    'the ZMQ certificate generator is the real one.')
RULE = (
    'One evaluation = one (umask, workflow) pair: real Scheduler.install() + '
    'start() under that umask, stop --now or crash at a seeded point (in half '
    'of the cases the private DB is then restored from a copy, in half the '
    'private files left behind are opened up with chmod go+r), restart;'
    ' after every start-up the mode of .service/db and of every *.key_secret '
    'under .service is read with stat(). Distinct = distinct umask; '
    'non-trivial = the umask leaves at least one group/other bit open '
    '(umask != 0o077), so an unprotected create would be visible.')
ASSUMPTIONS = ['files are inspected right after start() of each incarnation '
               'and again at the first main-loop iteration']
EXHAUSTIVE_DIMS = ['thorough tier: all 64 umasks 0o000..0o077']
TIERS = {
    'quick': {'n': 4, 'budget_s': 200, 'chunk': 1},
    'thorough': {'n': 16, 'budget_s': 900, 'chunk': 1},
}
EXPECTED_PROBES = ['private_db_restored_from_copy', 'restart_checked', 'keys_checked', 'crash_restart_checked',
                   'private_files_opened_up_while_down']
UMASKS_QUICK = [0o000, 0o022, 0o077, 0o002, 0o027, 0o007]


def make_params(seed, tier):
    return {'seed': seed, 'tier': tier}


_IDX = {}


def umask_for(seed, tier):
    # the runner hands out seeds; map them deterministically onto umasks
    r = random.Random(derive_seed(seed, 'umask'))
    if tier == 'thorough':
        return r.randrange(64)
    return r.choice(UMASKS_QUICK + [r.randrange(64) for _ in range(6)])


class ModeCheck(Monitor):
    def attach(self, h, res, case):
        self.res = res
        h.start_hooks.append(self.check)
        h.iter_hooks.append(self.check_iter)
        self.n = 0

    def check_iter(self, h):
        if h.iterations == 1:
            self.check(h)

    def check(self, h):
        srv = os.path.join(h.run_dir, '.service')
        files = [os.path.join(srv, 'db')] + sorted(
            glob.glob(os.path.join(srv, '*.key_secret')))
        keys = [f for f in files if f.endswith('.key_secret')]
        if len(keys) < 2:
            self.res.violate('private_key_files_missing', {
                'found': [os.path.basename(f) for f in files]})
        else:
            self.res.sim.probe('keys_checked')
        for f in files:
            if not os.path.exists(f):
                self.res.violate('private_file_missing', {
                    'file': os.path.basename(f)})
                continue
            mode = stat.S_IMODE(os.stat(f).st_mode)
            if mode & 0o077:
                self.res.violate('private_file_accessible_to_others', {
                    'file': os.path.basename(f), 'mode': oct(mode),
                    'umask': oct(self.umask), 'incarnation': h.incarnation})
        if h.incarnation >= 1:
            self.res.sim.probe('restart_checked')
        self.n += 1


def run(params):
    """One case = one workflow under a set of umasks (thorough: all 64)."""
    seed = params['seed']
    tier = params.get('tier', 'quick')
    if params.get('umask') is not None:
        return run_one(params, params['umask'])
    r0 = random.Random(derive_seed(seed, 'umasks'))
    if tier == 'thorough':
        ums = list(range(64))
    else:
        ums = UMASKS_QUICK + [r0.randrange(64) for _ in range(2)]
    out = None
    for um in ums:
        r = run_one(params, um)
        if r.get('error'):
            return r
        if out is None:
            out = r
            out['evaluations'] = 1
        else:
            out['evaluations'] += 1
            out['violations'] += r['violations']
            for k in ('faults', 'probes'):
                for a, b in r['stats'][k].items():
                    out['stats'][k][a] = out['stats'][k].get(a, 0) + b
            out['stats']['nontrivial'] += r['stats']['nontrivial']
            out['stats']['sim_seconds'] += r['stats']['sim_seconds']
            out['stats']['iterations'] += r['stats']['iterations']
    out['sample']['umasks_in_this_case'] = [oct(u) for u in ums]
    return out


def run_one(params, um):
    seed = params['seed']
    tier = params.get('tier', 'quick')
    rng = random.Random(derive_seed(seed, 'c44', um))
    from cylc.flow.workflow_status import StopMode
    mc = ModeCheck()
    mc.umask = um
    how = rng.choice(['stop', 'crash'])
    restore = rng.random() < 0.5
    opened = random.Random(derive_seed(seed, 'c44-open', um)).random() < 0.5
    cmds = [{'incarnation': 0, 'iter': rng.randint(2, 5), 'name': 'stop',
             'kwargs': {'mode': StopMode.REQUEST_NOW}}] if how == 'stop' else []
    case = Case(seed, knobs={'n_tasks': (2, 3), 'span': (2, 3)},
                policy='complete', gkw=swarm_gkw(rng))

    def lifecycle(h, res):
        if how == 'crash':
            h.world.crash_at = rng.randint(60, 160)
        info = h.run_once()
        res.stops.append(info.reason)
        h.world.crash_at = None
        if info.reason == 'crash':
            res.sim.probe('crash_restart_checked')
        if info.reason == 'crash' or info.reason.startswith('stop:REQUEST'):
            h.world.downtime(2.0)
            if restore:
                # the operator restores the private DB from a copy while the
                # scheduler is down (documented recovery: cp log/db
                # .service/db): the new file has umask-default permissions
                import shutil
                pri = os.path.join(h.run_dir, '.service', 'db')
                if os.path.exists(pri):
                    tmp = pri + '.restored'
                    with open(pri, 'rb') as src, open(tmp, 'wb') as dst:
                        shutil.copyfileobj(src, dst)
                    os.replace(tmp, pri)
                    res.sim.probe('private_db_restored_from_copy')
                    res.sim.fault('db_file_replaced_while_down')
            if opened:
                # the operator opened the run directory up while the
                # scheduler was down (chmod -R go+rX to share it); after a
                # crash the old key files are still there
                srv = os.path.join(h.run_dir, '.service')
                n = 0
                for f in sorted(glob.glob(os.path.join(srv, '*.key_secret'))
                                ) + [os.path.join(srv, 'db')]:
                    if os.path.exists(f):
                        os.chmod(f, stat.S_IMODE(os.stat(f).st_mode) | 0o044)
                        n += 1
                if n:
                    res.sim.probe('private_files_opened_up_while_down')
                    res.sim.fault('private_files_chmod_while_down')
            info = h.run_once()
            res.stops.append(info.reason)
    old = os.umask(um)
    try:
        res = run_case(case, monitors=[mc, CommandDriver(cmds)],
                       lifecycle=lifecycle)
    finally:
        os.umask(old)
    if res.error:
        return {'error': res.error, 'violations': [], 'stats': {}}
    viol = [{'rule': r, 'detail': d, 'property': PID, 'predicates': [],
             'choices': None, 'trace': res.sim.events[-20:],
             'replay_params': {'seed': seed, 'tier': tier, 'umask': um}}
            for r, d in res.violations]
    st = base_stats(res, None)
    st['nontrivial'] = [f'{seed}:umask{um:o}'] if um != 0o077 else []
    return {'violations': viol, 'stats': st,
            'sample': {'umask': oct(um), 'stops': res.stops,
                       'checks': mc.n, 'restart_via': how}}
