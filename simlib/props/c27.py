"""C27 Reload preserves task state (engine E1, exploration)."""
import copy
import json
import os
import random
import sqlite3

from ..boot import CLOCK
from ..core import HarnessError, derive_seed
from ..e1 import Case, CommandDriver, Monitor, run_case
from ..gen import Atom, Task, atoms, msg_of
from .common import (
    RATES_NONE, RATES_SCHED, base_stats, sample_of, swarm_gkw,
    unexpected_stop, viol_dicts,
)

PID = 'C27'
ENGINE = 'E1'
LEVEL = 'exploration'
RULE = (
    'One case = generated workflow running normally (jobs, messages, polls; '
    'queues with limits, holds, triggers incl. --flow=new and set commands '
    'before the reload) with 1-2 `cylc reload` commands at seeded main-loop '
    'interception points; before each reload the installed flow.cylc is '
    'rewritten with a seeded variant of the definition: unchanged, extended '
    '(a new inter-cycle prerequisite on an existing task, a new downstream '
    'task, a new upstream task), shrunk (a graph line or a whole task '
    'removed) or invalid (the reload must fail and change nothing). The '
    'shipped TaskPool._reload_taskdefs is bracketed by pool snapshots: every '
    'pooled task whose definition survives keeps status, flow numbers, '
    'submit number, held, queued and runahead flags and completed outputs; every '
    'prerequisite that exists before and after keeps its satisfaction; a '
    'prerequisite that is new is satisfied iff the run database (read '
    'independently before the reload) records that output of the upstream '
    'task in an overlapping flow, or the pooled upstream task has completed '
    'it; a task whose definition was removed '
    'stays in the pool if it had started (status other than waiting); '
    'nothing else joins or leaves the pool. One iteration later a '
    'task that was queued is queued again or has started; no task that had '
    'a live job at the reload is submitted again while that job is live. '
    'Distinct = distinct (program, variant, resolved command list); '
    'non-trivial = a reload happened with at least 2 pooled tasks of which '
    'one was not plainly waiting-unqueued, or the variant changed the '
    'prerequisites or definition of a pooled task.')
ASSUMPTIONS = [
    'the [runtime] section (outputs, retries) of surviving tasks is the '
    'same in every variant; only the graph changes',
]
TIERS = {
    'quick': {'n': 600, 'budget_s': 420, 'chunk': 8},
    'thorough': {'n': 12000, 'budget_s': 3000, 'chunk': 20},
}
EXPECTED_PROBES = ['reload_adds_prereq_on_fresh_output', 'reload_done', 'reload_same', 'reload_extended',
                   'reload_shrunk', 'reload_invalid_rejected',
                   'new_prereq_on_pooled_task', 'new_prereq_satisfied_from_db',
                   'orphan_waiting_removed', 'orphan_started_kept',
                   'queued_at_reload', 'held_at_reload', 'active_at_reload']
KNOBS = {'span': (2, 5), 'n_tasks': (2, 6), 'p_custom': 0.3,
         'p_runahead': 0.4, 'p_retries': 0.15}

_CUR = [None]
_PATCHED = [False]


def _install_patch():
    if _PATCHED[0]:
        return
    from cylc.flow.task_pool import TaskPool
    real = TaskPool._reload_taskdefs

    def _reload_taskdefs(self, *a, **k):
        w = _CUR[0]
        if w is None:
            return real(self, *a, **k)
        try:
            before = w.view(self)
            dbo = w.db_outputs()
        except Exception:
            import traceback
            w.fail = 'c27 before: ' + traceback.format_exc()[-900:]
            return real(self, *a, **k)
        ret = real(self, *a, **k)
        try:
            w.judge(self, before, dbo)
        except Exception:
            import traceback
            w.fail = 'c27 judge: ' + traceback.format_exc()[-900:]
        return ret

    TaskPool._reload_taskdefs = _reload_taskdefs
    _PATCHED[0] = True


def make_params(seed, tier):
    return {'seed': seed}


# -- definition variants -------------------------------------------------------

def names_in_graph(prog):
    out = set()
    for s in prog.sections:
        for expr, targets in s.lines:
            out.update(targets)
            for a in atoms(expr):
                out.add(a.task)
    return out


def make_variant(rng, prog):
    """Return (kind, new_prog or None, text)."""
    r = rng.random()
    new = copy.deepcopy(prog)
    secs = [s for s in new.sections if s.lines]
    if r < 0.2 or not secs:
        return 'same', new, new.render()
    if r < 0.3:
        txt = new.render().replace('[[graph]]', '[[graph]]\n        R1 = "=> =>"', 1)
        return 'invalid', None, txt
    if r < 0.65:
        # extended
        s = rng.choice(secs)
        targets = sorted({t for _e, ts in s.lines for t in ts})
        t = rng.choice(targets)
        sub = rng.random()
        if sub < 0.5:
            x = rng.choice(sorted(new.tasks))
            outs = ['succeeded', 'started', 'started'] + list(new.tasks[x].customs)
            s.lines.append((('atom', Atom(x, rng.choice(outs), 'rel', -1)), [t]))
            return 'ext_prereq', new, new.render()
        nn = 'znew'
        new.tasks[nn] = Task(nn)
        if sub < 0.75:
            s.lines.append((('atom', Atom(t, 'succeeded', 'rel', 0)), [nn]))
            return 'ext_child', new, new.render()
        s.lines.append((('atom', Atom(nn, 'succeeded', 'rel', -1)), [t]))
        return 'ext_parent', new, new.render()
    # shrunk
    if r < 0.82:
        cands = [(s, i) for s in secs for i, (e, _t) in enumerate(s.lines)]
        s, i = rng.choice(cands)
        del s.lines[i]
        kind = 'shr_line'
    else:
        x = rng.choice(sorted(names_in_graph(new)))
        for s in secs:
            s.lines = [(e, ts) for e, ts in s.lines
                       if x not in ts and all(a.task != x for a in atoms(e))]
        kind = 'shr_task'
    new.sections = [s for s in new.sections if s.lines]
    if not new.sections:
        return 'same', copy.deepcopy(prog), prog.render()
    left = names_in_graph(new)
    # drop special-task / queue references to tasks no longer in the graph
    for q, (lim, members) in list(new.queues.items()):
        new.queues[q] = (lim, [m for m in members if m in left] or members)
    return kind, new, new.render()


def gen_cmds(rng, prog, model):
    valid = [(t, p) for t in prog.tasks for p in sorted(model._valid[t])]
    cmds = []
    base = rng.randint(2, 25)
    for _ in range(rng.randint(0, 3)):
        k = rng.choice(['hold', 'trigger', 'trigger_new', 'set_out', 'hold_pt',
                        'set_pre'])
        it = max(1, base - rng.randint(0, 6))
        ids = [prog.iid(*i) for i in rng.sample(valid, min(len(valid), 2))]
        if k == 'hold':
            c = {'name': 'hold', 'pick': 'pooled', 'u': rng.random(),
                 'kwargs': {}}
        elif k == 'trigger':
            c = {'name': 'force_trigger_tasks', 'pick': 'pooled',
                 'u': rng.random(), 'kwargs': {'flow': []}}
        elif k == 'trigger_new':
            c = {'name': 'force_trigger_tasks',
                 'kwargs': {'tasks': ids[:1], 'flow': ['new']}}
        elif k == 'set_out':
            c = {'name': 'set', 'kwargs': {'tasks': ids[:1], 'flow': [],
                                           'outputs': ['succeeded']}}
        elif k == 'set_pre':
            c = {'name': 'set', 'pick': 'pooled', 'u': rng.random(),
                 'kwargs': {'flow': [], 'prerequisites': ['all']}}
        else:
            c = {'name': 'set_hold_point', 'kwargs': {
                'point': prog.pstr(rng.randint(prog.icp, prog.fcp))}}
        c.update({'iter': it, 'slot': rng.randint(0, 1)})
        cmds.append(c)
    # (separate stream: leaves the draws below as they were)
    r2 = random.Random(repr(rng.getstate()[1][:4]))
    if r2.random() < 0.35:
        # remove a partially satisfied waiting task: a remaining parent
        # respawns it with the other prerequisites unsatisfied although
        # their outputs are in the DB -- a reload must leave them so
        cmds.append({'name': 'remove_tasks', 'pick': 'pooled_partial',
                     'u': r2.random(), 'kwargs': {'flow': []},
                     'iter': max(1, base - r2.randint(1, 8)), 'slot': 0})
    it = base
    paused = False
    if rng.random() < 0.35:
        cmds.append({'iter': max(1, base - rng.randint(1, 3)), 'slot': 0,
                     'name': 'pause', 'kwargs': {}})
        paused = True
    for k in range(rng.randint(1, 2)):
        dyn = rng.random() if rng.random() < 0.4 else None
        cmds.append({'iter': it, 'slot': 1 if dyn else rng.randint(0, 1),
                     'name': 'reload_workflow', 'kwargs': {},
                     'variant': k, 'dyn': dyn})
        it += rng.randint(1, 10)
    cmds.sort(key=lambda c: (c['iter'], c['slot']))
    if paused:
        cmds.append({'at_time': 100.0, 'name': 'resume', 'kwargs': {}})
    cmds.append({'at_time': 120.0, 'name': 'release_hold_point', 'kwargs': {}})
    cmds.append({'at_time': 120.0, 'name': 'release', 'kwargs': {
        'tasks': ['*/*']}})
    return cmds


class Driver(CommandDriver):
    def __init__(self, schedule, watch, variants):
        super().__init__(schedule)
        self.watch = watch
        self.variants = variants

    def resolve(self, h, c):
        if c['name'] == 'reload_workflow':
            kind, new, text = self.variants[c.get('variant', 0)]
            dyn = self.dynamic_variant(h, c) if c.get('dyn') else None
            if dyn is not None:
                kind, new, text = dyn
            with open(os.path.join(h.run_dir, 'flow.cylc'), 'w') as fh:
                fh.write(text)
            self.watch.pending_variant = (kind, new)
            return c['kwargs']
        if c.get('pick') == 'pooled_partial':
            cand = []
            for i in h.schd.pool.get_tasks():
                if i.state.status != 'waiting':
                    continue
                vals = [bool(v) for p in i.state.prerequisites
                        for v in p._satisfied.values()]
                if any(vals) and not all(vals):
                    cand.append(i.identity)
            cand.sort()
            if not cand:
                return None
            self.watch.res.sim.probe('removed_partially_satisfied_task')
            kw = dict(c['kwargs'])
            kw['tasks'] = [cand[int(c['u'] * len(cand)) % len(cand)]]
            return kw
        if c.get('pick') == 'pooled':
            pool = sorted(i.identity for i in h.schd.pool.get_tasks())
            if not pool:
                return None
            kw = dict(c['kwargs'])
            kw['tasks'] = [pool[int(c['u'] * len(pool)) % len(pool)]]
            return kw
        return c['kwargs']


    def dynamic_variant(self, h, c):
        """Extend the definition with a prerequisite on an output whose
        message the scheduler has received in this very iteration (so it is
        recorded but possibly not yet flushed to the database), for a task
        that is waiting in the pool at a later cycle point."""
        res = self.watch.res
        prog = res.prog
        now = CLOCK.t
        fresh = [(k, m) for t, k, m in h.world.msg_log
                 if abs(t - now) < 1e-6 and k[1] in prog.tasks]
        if not fresh:
            return None
        waiting = sorted(
            (i.tdef.name, prog.ppoint(str(i.point)))
            for i in h.schd.pool.get_tasks()
            if i.state.status == 'waiting' and i.tdef.name in prog.tasks)
        u = c['dyn']
        key, msg = fresh[int(u * len(fresh)) % len(fresh)]
        xp = prog.ppoint(key[0])
        out = msg[4:] if msg.startswith('msg ') else msg.split('/')[0]
        if out not in ('started', 'succeeded', 'failed') and (
                out not in prog.tasks[key[1]].customs):
            return None
        cands = [(t, p) for t, p in waiting if p - xp >= 1 and p - xp <= 2]
        if not cands:
            return None
        t, p = cands[int(u * 7919) % len(cands)]
        new = copy.deepcopy(prog)
        secs = [s_ for s_ in new.sections
                if p in s_.pset and any(t in tg for _e, tg in s_.lines)]
        if not secs:
            return None
        secs[0].lines.append(
            (('atom', Atom(key[1], out, 'rel', -(p - xp))), [t]))
        if out == 'failed':
            new.tasks[key[1]].opt['succeeded'] = True
        res.sim.probe('reload_adds_prereq_on_fresh_output')
        return 'ext_fresh', new, new.render()


class ReloadWatch(Monitor):
    def __init__(self):
        self.fail = None
        self.pending_variant = None
        self.reloads = []           # (iteration, kind)
        self.nontrivial = False
        self.queued_watch = []      # (iteration, identity)
        self.live_at_reload = {}    # identity -> (job key, reload time)
        self.n_judged = 0

    def attach(self, h, res, case):
        self.res = res
        self.h = h
        _install_patch()
        _CUR[0] = self
        h.iter_hooks.append(self.post)
        h.world.on_launch.append(self.on_launch)

    # -- views -----------------------------------------------------------------
    def view(self, pool):
        out = {}
        for i in pool.get_tasks():
            pr = {}
            for p in i.state.prerequisites:
                for k, v in p.items():
                    pr[(str(k.point), k.task, k.output)] = v
            out[i.identity] = {
                'name': i.tdef.name,
                'status': i.state.status,
                'flows': set(i.flow_nums),
                'submit_num': i.submit_num,
                'held': bool(i.state.is_held),
                'queued': bool(i.state.is_queued),
                'runahead': bool(i.state.is_runahead),
                'outputs': set(i.state.outputs.get_completed_outputs()),
                'out_msgs': {msg for _l, msg, done in i.state.outputs if done},
                'prereqs': pr,
                'xtriggers': dict(i.state.xtriggers),
                'manual': bool(i.is_manual_submit),
                'flow_wait': bool(i.flow_wait),
            }
        return out

    def db_outputs(self):
        """{(cycle, name): [(flows, set(messages))]} read independently."""
        path = os.path.join(self.h.run_dir, '.service', 'db')
        out = {}
        if not os.path.exists(path):
            return out
        con = sqlite3.connect(f'file:{path}?mode=ro', uri=True)
        try:
            for cyc, name, fl, outs in con.execute(
                    'SELECT cycle, name, flow_nums, outputs FROM task_outputs'):
                try:
                    d = json.loads(outs) if outs else {}
                except ValueError:
                    d = {}
                # {trigger: message}; a forced completion is recorded as
                # {trigger: "(manually completed)"}: go by the trigger
                if isinstance(d, dict):
                    msgs = {msg_of(name, trig) for trig in d}
                    if any(v == '(manually completed)' for v in d.values()):
                        msgs.add('(forced)')
                else:
                    msgs = set(d)
                try:
                    fs = set(json.loads(fl))
                except ValueError:
                    fs = set()
                out.setdefault((cyc, name), []).append((fs, msgs))
        finally:
            con.close()
        return out

    # -- the oracle --------------------------------------------------------------
    def judge(self, pool, before, dbo):
        res = self.res
        self.n_judged += 1
        kind, new = self.pending_variant or ('same', None)
        res.sim.probe('reload_done')
        res.sim.probe({'same': 'reload_same', 'invalid': 'reload_invalid'}.get(
            kind, 'reload_extended' if kind.startswith('ext') else 'reload_shrunk'))
        after = self.view(pool)
        self.reloads.append((self.h.iterations, kind))
        left = names_in_graph(new) if new is not None else None
        detail0 = {'variant': kind, 't': CLOCK.t}
        interesting = 0
        for ident, b in sorted(before.items()):
            a = after.get(ident)
            orphan = left is not None and b['name'] not in left
            if b['queued']:
                res.sim.probe('queued_at_reload')
            if b['held']:
                res.sim.probe('held_at_reload')
            if b['status'] in ('preparing', 'submitted', 'running'):
                res.sim.probe('active_at_reload')
            if b['status'] != 'waiting' or b['queued'] or b['held']:
                interesting += 1
            if orphan:
                started = b['status'] != 'waiting'
                if started and a is None:
                    res.violate('started_orphan_dropped_by_reload', dict(
                        detail0, task=ident, status=b['status'],
                        held=b['held'], queued=b['queued']))
                elif not started and a is not None:
                    # (the property does not require unstarted orphans to go:
                    # e.g. a second reload keeps an orphan adopted by the first)
                    res.sim.probe('orphan_waiting_kept')
                elif started:
                    res.sim.probe('orphan_started_kept')
                else:
                    res.sim.probe('orphan_waiting_removed')
                self.nontrivial = True
                if a is None:
                    continue
            elif a is None:
                res.violate('task_dropped_by_reload', dict(
                    detail0, task=ident, status=b['status']))
                continue
            for f in ('status', 'flows', 'submit_num', 'held', 'runahead',
                      'queued', 'outputs', 'manual', 'flow_wait'):
                if a[f] != b[f]:
                    res.violate('task_state_changed_by_reload', dict(
                        detail0, task=ident, field=f,
                        before=_j(b[f]), after=_j(a[f])))
            if orphan:
                continue
            for key, av in sorted(a['prereqs'].items()):
                if key in b['prereqs']:
                    if bool(av) != bool(b['prereqs'][key]):
                        res.violate('prerequisite_satisfaction_changed_by_reload',
                                    dict(detail0, task=ident,
                                         prerequisite='/'.join(key),
                                         before=str(b['prereqs'][key]),
                                         after=str(av)))
                    continue
                # a prerequisite that did not exist before the reload
                self.nontrivial = True
                res.sim.probe('new_prereq_on_pooled_task')
                rec = any(fs & b['flows'] and key[2] in msgs
                          for fs, msgs in dbo.get((key[0], key[1]), []))
                # (a message that has been delivered but not processed when
                # the reload runs is still in the scheduler's queue: it is
                # neither in the database, which the reload flushes first,
                # nor in a pooled proxy, and does not count)
                up = before.get(f'{key[0]}/{key[1]}')
                if up is not None and up['flows'] & b['flows'] and (
                        key[2] in up['out_msgs']):
                    # recorded by the pooled upstream task (possibly not yet
                    # written to the database)
                    rec = True
                    res.sim.probe('new_prereq_on_output_of_pooled_task')
                if rec:
                    res.sim.probe('new_prereq_satisfied_from_db')
                preds = []
                rows = [(fs, m) for fs, m in dbo.get((key[0], key[1]), [])
                        if fs & b['flows']]
                if rec and not av and (
                        len(rows) > 1 or any('(forced)' in m and key[2] in m
                                             for _fs, m in rows)):
                    # TaskPool.check_task_output looks at the first row whose
                    # flows overlap only, and compares messages although a
                    # forced completion is stored without its message
                    preds.append('output_forced_or_in_another_db_row')
                if bool(av) != rec:
                    res.violate('new_prerequisite_wrongly_' + (
                        'satisfied' if av else 'unsatisfied'), dict(
                            detail0, task=ident, prerequisite='/'.join(key),
                            recorded=rec, after=str(av), predicates=preds,
                            db_rows=[(sorted(fs), sorted(m)) for fs, m in
                                     dbo.get((key[0], key[1]), [])]))
            if set(b['prereqs']) - set(a['prereqs']):
                self.nontrivial = True
            for x, v in a['xtriggers'].items():
                if x in b['xtriggers'] and bool(v) != bool(b['xtriggers'][x]):
                    res.violate('xtrigger_satisfaction_changed_by_reload', dict(
                        detail0, task=ident, xtrigger=x))
            if b['queued'] and b['status'] == 'waiting':
                added = set(a['prereqs']) - set(b['prereqs'])
                if not any(not a['prereqs'][k] for k in added):
                    self.queued_watch.append((self.h.iterations, ident))
            if b['status'] in ('preparing', 'submitted', 'running'):
                self.live_at_reload[ident] = (b['submit_num'], CLOCK.t)
        for ident in sorted(set(after) - set(before)):
            res.violate('task_added_by_reload', dict(detail0, task=ident))
        if len(before) >= 2 and interesting:
            self.nontrivial = True
        self.pending_variant = None

    def post(self, h):
        if self.fail:
            raise HarnessError(self.fail)
        if self.pending_variant and self.pending_variant[0] == 'invalid' and (
                h.schd is not None and not getattr(
                    h.schd, 'reload_pending', False)):
            # the reload command has finished without reaching the pool
            pass
        if not self.queued_watch or h.schd is None:
            return
        keep = []
        pool = {i.identity: i for i in h.schd.pool.get_tasks()}
        for it, ident in self.queued_watch:
            if h.iterations <= it:
                keep.append((it, ident))
                continue
            i = pool.get(ident)
            if i is None:
                continue
            if (i.state.status == 'waiting' and not i.state.is_queued
                    and not i.state.is_held and not i.state.is_runahead
                    and i.state.prerequisites_all_satisfied()
                    and i.state.xtriggers_all_satisfied()
                    and not h.schd.is_paused):
                self.res.violate('queued_task_left_unqueued_after_reload', {
                    'task': ident, 'reload_iteration': it,
                    'manual': bool(i.is_manual_submit), 't': CLOCK.t})
        self.queued_watch = keep

    def on_launch(self, key, job):
        ident = f'{key[0]}/{key[1]}'
        rec = self.live_at_reload.get(ident)
        if not rec:
            return
        nn, t_reload = rec
        old = self.h.world.jobs.get((key[0], key[1], nn))
        if old is None or key[2] <= nn:
            return
        now = CLOCK.t
        ended = (old.t_end is not None and old.t_end <= now) or (
            old.killed_at is not None) or not old.submit_ok
        if not ended:
            self.res.violate('active_task_resubmitted_after_reload', {
                'task': ident, 'live_job': nn, 'new_job': key[2],
                't_reload': t_reload, 't': now})
        self.live_at_reload.pop(ident, None)


def _j(v):
    return sorted(v) if isinstance(v, (set, frozenset)) else v


def run(params):
    seed = params['seed']
    rng = random.Random(derive_seed(seed, 'c27'))
    gkw = swarm_gkw(rng)
    rates = RATES_NONE if rng.random() < 0.5 else RATES_SCHED
    case = Case(seed, knobs=KNOBS, rates=rates, policy='any',
                plan_kw={'p_fail': 0.2}, gkw=gkw, opts={})
    case.choices = params.get('choices')
    case.build()
    if rng.random() < 0.6:
        case.prog.queues = {'default': (rng.randint(1, 2), [])}
    from ..refmodel import Model
    model = Model(case.prog, None)
    cmds = params.get('cmds') or gen_cmds(rng, case.prog, model)
    variants = [make_variant(rng, case.prog) for _ in range(2)]
    rw = ReloadWatch()
    drv = Driver([dict(c) for c in cmds], rw, variants)
    try:
        res = run_case(case, monitors=[drv, rw])
    finally:
        _CUR[0] = None
    if res.error or rw.fail:
        return {'error': res.error or rw.fail, 'violations': [], 'stats': {}}
    # an invalid definition must be rejected without reaching the pool
    n_rel = sum(1 for d in res.commands_done if d[3] == 'reload_workflow')
    n_invalid = sum(1 for d in res.commands_done if d[3] == 'reload_workflow'
                    ) and sum(1 for k, _n, _t in variants[:n_rel]
                              if k == 'invalid')
    if n_invalid:
        res.sim.probe('reload_invalid_rejected')
        if any(k == 'invalid' for _i, k in rw.reloads):
            res.violate('invalid_definition_reached_the_pool', {
                'reloads': rw.reloads})
    stop = res.stops[-1]
    if stop.startswith('error:') and 'stall timeout' not in stop and (
            'inactivity' not in stop):
        preds = []
        failed = any('Reload failed' in m for _l, m in res.log)
        if "'graph_depth'" in stop and 'AttributeError' in stop:
            preds.append('datastore_duplicate_child_crash')
        res.violate('scheduler_crashed_after_reload', {
            'stop': stop, 'reload_failed': failed,
            'log_tail': res.log_tail[-6:], 'predicates': preds})
    resolved = [(d[2], d[3], str(d[4])) for d in res.commands_done]
    nontriv = None
    if rw.nontrivial and rw.n_judged:
        nontriv = [res.prog.render(), [v[0] for v in variants], resolved]
    return {'violations': viol_dicts(res, PID, {}),
            'stats': base_stats(res, nontriv),
            'sample': sample_of(res, {
                'commands': resolved, 'variants': [v[0] for v in variants],
                'reloads': rw.reloads})}
