"""C08 Flow numbers propagate, merge and are never reused
(engine E1, exploration)."""
import random

from ..boot import CLOCK
from ..core import HarnessError, derive_seed
from ..e1 import Case, CommandDriver, Monitor, run_case
from ..gen import msg_of
from .common import (
    RATES_NONE, RATES_SCHED, base_stats, sample_of, swarm_gkw, viol_dicts,
)
from .c19 import StopRestart, stop_plan

PID = 'C08'
ENGINE = 'E1'
LEVEL = 'exploration'
RULE = (
    'One case = generated workflow running normally with 1-4 flow commands '
    'at seeded main-loop interception points (trigger and set with '
    '--flow=new, =N, =none or unset, on pooled, finished and not yet '
    'spawned instances) and, in half of the cases, 1-2 stop/restart cycles '
    '(clean stop or stop --now, restart on the same run directory) placed '
    'between the commands. Oracles: (new) every flow number allocated for '
    '--flow=new (FlowMgr.get_flow without a number) is greater than every '
    'flow number seen before in the run: on any task proxy, in any earlier '
    'allocation, in any earlier incarnation, and in the workflow_flows and '
    'task_states tables read independently at each restart; (carry) around '
    'every TaskPool.spawn_on_output call, each graph child of that output '
    'that is pooled afterwards carries all flow numbers of the parent, and '
    'an instance that existed before belongs exactly to the union, one that '
    'did not exist exactly to the parent flows; a parent in no flow spawns '
    'nothing; a finished child that already belongs to all flows of the '
    'parent is not reset to waiting by the arrival; (no re-run) no job is submitted for an instance, other than by '
    'a trigger or set command, by a proxy all of whose flows are flows in '
    'which an earlier proxy of that instance finished with all required '
    'outputs complete. Distinct = distinct '
    '(program, commands, stops, schedule digest); non-trivial = a new flow '
    'was allocated, and a flow merge happened or a restart lay between two '
    'allocations.')
ASSUMPTIONS = [
    'no `cylc remove` in this workload (it erases history by design)',
]
TIERS = {
    'quick': {'n': 600, 'budget_s': 420, 'chunk': 8},
    'thorough': {'n': 12000, 'budget_s': 3000, 'chunk': 20},
}
EXPECTED_PROBES = ['new_flow_allocated', 'new_flow_after_restart',
                   'flow_merge', 'child_spawned_with_parent_flows',
                   'spawn_from_no_flow_parent', 'respawn_blocked_by_history',
                   'two_flows_in_pool']
KNOBS = {'span': (2, 5), 'n_tasks': (2, 6), 'p_custom': 0.3, 'p_retries': 0.1,
         'p_runahead': 0.3}

_CUR = [None]
_PATCHED = [False]


def _install_patch():
    if _PATCHED[0]:
        return
    from cylc.flow.flow_mgr import FlowMgr
    from cylc.flow.task_pool import TaskPool
    real_get = FlowMgr.get_flow
    real_load = FlowMgr.load_from_db
    real_spawn = TaskPool.spawn_on_output
    real_ric = TaskPool.remove_if_complete

    def guard(fn):
        def call(w, *a):
            try:
                fn(w, *a)
            except Exception:
                import traceback
                w.fail = 'c08 monitor: ' + traceback.format_exc()[-900:]
        return call

    def get_flow(self, flow_num=None, meta=None):
        w = _CUR[0]
        n = real_get(self, flow_num, meta)
        if w is not None:
            guard(type(w).on_get_flow)(w, self, flow_num, n)
        return n

    def load_from_db(self, flow_nums):
        r = real_load(self, flow_nums)
        w = _CUR[0]
        if w is not None:
            guard(type(w).on_load)(w, self)
        return r

    def spawn_on_output(self, itask, output, *a, **k):
        w = _CUR[0]
        if w is None or w.depth:
            return real_spawn(self, itask, output, *a, **k)
        before = None
        try:
            before = w.flows_view(self)
            pfl = set(itask.flow_nums)
        except Exception:
            import traceback
            w.fail = 'c08 before: ' + traceback.format_exc()[-900:]
        w.depth += 1
        try:
            r = real_spawn(self, itask, output, *a, **k)
        finally:
            w.depth -= 1
        if before is not None:
            guard(type(w).on_spawned)(w, self, itask, output, pfl, before)
        return r

    def remove_if_complete(self, itask, *a, **k):
        w = _CUR[0]
        fl = set(itask.flow_nums)
        r = real_ric(self, itask, *a, **k)
        if w is not None and r:
            guard(type(w).on_complete)(w, itask, fl)
        return r

    FlowMgr.get_flow = get_flow
    FlowMgr.load_from_db = load_from_db
    TaskPool.spawn_on_output = spawn_on_output
    TaskPool.remove_if_complete = remove_if_complete
    _PATCHED[0] = True


def make_params(seed, tier):
    return {'seed': seed}


def gen_cmds(rng, prog, model, n_iter, stops=()):
    valid = [(t, p) for t in prog.tasks for p in sorted(model._valid[t])]
    cmds = []
    for _ in range(rng.randint(1, 4)):
        t, p = rng.choice(valid)
        ident = prog.iid(t, p)
        flow = rng.choice([['new'], ['new'], ['new'], [], ['1'], ['2'],
                           ['none'], ['1', '2']])
        k = rng.random()
        if k < 0.55:
            c = {'name': 'force_trigger_tasks',
                 'kwargs': {'tasks': [ident], 'flow': flow}}
        elif k < 0.8:
            c = {'name': 'set', 'kwargs': {
                'tasks': [ident], 'flow': flow,
                'outputs': rng.choice([None, ['succeeded'], ['started']])}}
        else:
            c = {'name': 'set', 'kwargs': {
                'tasks': [ident], 'flow': flow, 'prerequisites': ['all']}}
        c.update({'iter': rng.randint(1, max(3, n_iter)),
                  'slot': rng.randint(0, 1),
                  'incarnation': rng.choice([0, 0, 1, 2])})
        cmds.append(c)
    r2 = random.Random(repr(rng.getstate()[1][:4]))   # (separate stream)
    if not stops and r2.random() < 0.7:
        # a finished task is run again in flow 2, then flow 1 reaches it
        # once more from a re-triggered parent: it completed in flow 1 and
        # must not run there again
        pairs = []
        for t, p in valid:
            for e in model.prereq_exprs(t, p):
                for a in model.conc_atoms(e):
                    if (a[0], a[1]) in valid and (a[0], a[1]) != (t, p):
                        pairs.append(((a[0], a[1]), (t, p)))
        if pairs:
            par, kid = pairs[r2.randrange(len(pairs))]
            it1 = max(2, int(n_iter * r2.uniform(0.4, 1.0)))
            it2 = it1 + r2.randint(4, 14)
            cmds.append({'name': 'force_trigger_tasks', 'iter': it1,
                         'slot': 0, 'incarnation': 0, 'kwargs': {
                             'tasks': [prog.iid(*kid)], 'flow': ['2']}})
            cmds.append({'name': 'force_trigger_tasks', 'iter': it2,
                         'slot': 0, 'incarnation': 0, 'kwargs': {
                             'tasks': [prog.iid(*par)], 'flow': ['1']}})
    if stops:
        # make sure a new flow is started before and after the first restart
        # (and that it has finished or not by then, as the schedule decides)
        s_it = stops[0]['iter']
        for inc, it in ((0, rng.randint(1, max(1, s_it - 1))),
                        (1, rng.randint(1, 10))):
            t, p = rng.choice(valid)
            cmds.append({'name': 'force_trigger_tasks', 'iter': it,
                         'slot': rng.randint(0, 1), 'incarnation': inc,
                         'kwargs': {'tasks': [prog.iid(t, p)],
                                    'flow': ['new']}})
        for c in cmds:
            if c['incarnation'] == 0 and c['iter'] > s_it:
                c['iter'] = rng.randint(1, s_it)
    cmds.sort(key=lambda c: (c['incarnation'], c['iter'], c['slot']))
    return cmds


class FlowWatch(Monitor):
    def __init__(self):
        self.fail = None
        self.depth = 0
        self.seen = set()           # every flow number seen so far
        self.allocs = []            # (t, incarnation, number)
        self.completed = {}         # identity -> [flow sets]
        self.n_merge = 0
        self.restart_between = False
        self.n_cmd = 0

    def attach(self, h, res, case):
        self.res = res
        self.h = h
        _install_patch()
        _CUR[0] = self
        h.iter_hooks.append(self.post)
        h.world.on_launch.append(self.on_launch)

    # -- (new) -------------------------------------------------------------------
    def note_pool(self, pool):
        fl = set()
        for i in pool.get_tasks():
            fl |= set(i.flow_nums)
        if len(fl) > 1:
            self.res.sim.probe('two_flows_in_pool')
        self.seen |= fl

    def on_load(self, fm):
        """Restart: read the flow history independently."""
        import json
        import os
        import sqlite3
        path = os.path.join(self.h.run_dir, '.service', 'db')
        con = sqlite3.connect(f'file:{path}?mode=ro', uri=True)
        try:
            for (n,) in con.execute('SELECT flow_num FROM workflow_flows'):
                self.seen.add(int(n))
            for (fl,) in con.execute('SELECT flow_nums FROM task_states'):
                try:
                    self.seen |= {int(x) for x in json.loads(fl)}
                except ValueError:
                    pass
        finally:
            con.close()

    def on_get_flow(self, fm, asked, got):
        res = self.res
        if hasattr(self.h.schd, 'pool'):
            self.note_pool(self.h.schd.pool)
        if asked is None:
            res.sim.probe('new_flow_allocated')
            if self.allocs and self.allocs[-1][1] != self.h.incarnation:
                res.sim.probe('new_flow_after_restart')
                self.restart_between = True
            if got in self.seen or any(got <= s for s in self.seen):
                res.violate('new_flow_number_used_before', {
                    'allocated': got, 'seen_before': sorted(self.seen),
                    'incarnation': self.h.incarnation,
                    'earlier_allocations': [list(a) for a in self.allocs],
                    't': CLOCK.t})
            self.allocs.append((CLOCK.t, self.h.incarnation, got))
        self.seen.add(got)

    # -- (carry) -----------------------------------------------------------------
    def flows_view(self, pool):
        self.status_view = {i.identity: i.state.status
                            for i in pool.get_tasks()}
        return {i.identity: set(i.flow_nums) for i in pool.get_tasks()}

    def on_spawned(self, pool, itask, output, pfl, before):
        res = self.res
        prog, model = res.prog, res.model
        name = itask.tdef.name
        if name not in prog.tasks:
            return
        p = prog.ppoint(str(itask.point))
        out_name = None
        for lbl in ['succeeded', 'failed', 'started', 'submitted',
                    'submit-failed', 'expired'] + list(prog.tasks[name].customs):
            if msg_of(name, lbl) == output or lbl == output:
                out_name = lbl
        if out_name is None:
            return
        st_before = self.status_view
        after = self.flows_view(pool)
        st_after = self.status_view
        kids = [c for c in model.children(name, p, out_name)
                if model.valid(c[0], c[1])]
        for c in kids:
            cid = prog.iid(c[0], c[1])
            if cid == itask.identity:
                continue
            a = after.get(cid)
            b = before.get(cid)
            if not pfl:
                res.sim.probe('spawn_from_no_flow_parent')
                if a is not None and b is None:
                    res.violate('no_flow_parent_spawned_child', {
                        'parent': itask.identity, 'output': out_name,
                        'child': cid, 'child_flows': sorted(a)})
                elif a is not None and b is not None and a != b:
                    res.violate('no_flow_parent_changed_child_flows', {
                        'parent': itask.identity, 'child': cid,
                        'before': sorted(b), 'after': sorted(a)})
                continue
            if a is None:
                if b is None:
                    res.sim.probe('respawn_blocked_by_history')
                continue
            if b is None:
                res.sim.probe('child_spawned_with_parent_flows')
                if a != pfl:
                    res.violate('spawned_child_flows_differ_from_parent', {
                        'parent': itask.identity, 'output': out_name,
                        'parent_flows': sorted(pfl), 'child': cid,
                        'child_flows': sorted(a), 't': CLOCK.t})
            else:
                if pfl <= b and st_before.get(cid) in (
                        'succeeded', 'failed', 'submit-failed', 'expired') and (
                        st_after.get(cid) == 'waiting'):
                    res.violate('finished_task_reset_by_its_own_flow', {
                        'parent': itask.identity, 'output': out_name,
                        'parent_flows': sorted(pfl), 'child': cid,
                        'child_flows': sorted(b),
                        'status_before': st_before.get(cid), 't': CLOCK.t})
                if not b:
                    continue    # a no-flow instance absorbs the flows: merge
                if b != a:
                    self.n_merge += 1
                    res.sim.probe('flow_merge')
                if a != (b | pfl):
                    res.violate('merged_child_flows_not_the_union', {
                        'parent': itask.identity, 'output': out_name,
                        'parent_flows': sorted(pfl), 'child': cid,
                        'before': sorted(b), 'after': sorted(a), 't': CLOCK.t})

    # -- (no re-run) -------------------------------------------------------------
    def on_complete(self, itask, flows):
        if flows:
            self.completed.setdefault(itask.identity, []).append(set(flows))

    def on_launch(self, key, job):
        res = self.res
        ident = f'{key[0]}/{key[1]}'
        self.forget_commanded()
        done = self.completed.get(ident)
        if not done or self.h.schd is None:
            return
        it = self.h.schd.pool._get_task_by_id(ident)
        if it is None or it.is_manual_submit:
            return
        fl = set(it.flow_nums)
        union = set().union(*done)
        # (an instance spawned by a flow in which it has not run may absorb,
        # by merging, a flow in which it has: that is one run for the new
        # flow, not a re-run; only a proxy all of whose flows had already
        # completed the task is a re-run)
        if fl and fl <= union:
            res.violate('task_rerun_in_flow_where_it_completed', {
                'task': ident, 'job': key[2], 'flows': sorted(fl),
                'completed_in': [sorted(x) for x in done], 't': CLOCK.t})

    def forget_commanded(self):
        # a trigger (or set) on an instance legitimately re-runs it: its
        # history in those flows is erased by the command
        done = getattr(self.res, 'commands_done', [])
        for d in done[self.n_cmd:]:
            if d[3] in ('force_trigger_tasks', 'set'):
                for ident in d[4].get('tasks', []):
                    self.completed.pop(ident, None)
        self.n_cmd = len(done)

    def post(self, h):
        self.forget_commanded()
        if self.fail:
            raise HarnessError(self.fail)
        if h.schd is not None and hasattr(h.schd, 'pool'):
            self.note_pool(h.schd.pool)


def run(params):
    seed = params['seed']
    rng = random.Random(derive_seed(seed, 'c08'))
    gkw = swarm_gkw(rng)
    rates = RATES_NONE if rng.random() < 0.6 else RATES_SCHED
    case = Case(seed, knobs=KNOBS, rates=rates, policy='any',
                plan_kw={'p_fail': 0.2}, gkw=gkw, opts={})
    case.choices = params.get('choices')
    case.build()
    from ..refmodel import Model
    model = Model(case.prog, None)
    n_iter = 25
    stops = params.get('stops')
    if stops is None:
        stops = stop_plan(seed, n_iter) if rng.random() < 0.5 else []
    cmds = params.get('cmds') or gen_cmds(rng, case.prog, model, n_iter, stops)
    fw = FlowWatch()
    sr = StopRestart(stops)
    try:
        res = run_case(case, monitors=[
            CommandDriver([dict(c) for c in cmds] + [dict(s) for s in stops]),
            sr, fw], lifecycle=sr.lifecycle)
    finally:
        _CUR[0] = None
    if res.error or fw.fail:
        return {'error': res.error or fw.fail, 'violations': [], 'stats': {}}
    stop = res.stops[-1]
    if stop.startswith('error:') and 'stall timeout' not in stop and (
            'inactivity' not in stop):
        preds = []
        if "'graph_depth'" in stop and 'AttributeError' in stop:
            preds.append('datastore_duplicate_child_crash')
        res.violate('scheduler_aborted_unexpectedly', {
            'stop': res.stops, 'log_tail': res.log_tail[-6:],
            'property': 'C03', 'predicates': preds})
    resolved = [(d[1], d[2], d[3], str(d[4])) for d in res.commands_done]
    nontriv = None
    if fw.allocs and (fw.n_merge or fw.restart_between):
        nontriv = [res.prog.render(), resolved, res.sim.hexdigest()]
    return {'violations': viol_dicts(res, PID, {}),
            'stats': base_stats(res, nontriv),
            'sample': sample_of(res, {
                'commands': resolved, 'stops': res.stops,
                'new_flows': [list(a) for a in fw.allocs]})}
