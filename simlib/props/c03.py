"""C03 No premature shutdown, no false stall, no starvation (engine E1, exploration). See DESIGN.md section 7."""
from .common import generic_run, FinalDbMonitor, launched_instances

PID = 'C03'
ENGINE = 'E1'
LEVEL = 'exploration'
RULE = ('One case = generated workflow + an outcome plan in which tasks may fail with required success or omit required custom outputs + seeded schedule. Every auto-shutdown decision, every stall report and every quiescent state is checked against the real pool. Distinct = distinct (program, schedule digest); non-trivial = the run ended in a reported stall or retained an incomplete task.')
ASSUMPTIONS = [
    'jobs, polls, submissions, message transport and the clock are simulated',
    'reference model / invariants cover the generated workflow sub-language',
]
TIERS = {
    'quick': {'n': 1000, 'budget_s': 420, 'chunk': 10},
    'thorough': {'n': 20000, 'budget_s': 3000, 'chunk': 25},
}
EXPECTED_PROBES = ['auto_shutdown_decision', 'stall_reported', 'incomplete_task_retained', 'quiescence_checked']


def make_params(seed, tier):
    return {'seed': seed}

KNOBS = {'p_runahead': 0.7, 'p_optional': 0.2}


def run(params):
    r = generic_run(PID, params, knobs=KNOBS, policy='any',
                    plan_kw={'p_fail': 0.35}, probe_key=None)
    st = r.get('stats') or {}
    pr = st.get('probes', {})
    if not (pr.get('stall_reported') or pr.get('incomplete_task_retained')):
        st['nontrivial'] = []
    return r
