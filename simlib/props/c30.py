"""C30 Removing a task undoes exactly its effects (engine E1, exploration)."""
import copy
import json
import os
import random
import sqlite3

from ..boot import CLOCK
from ..core import HarnessError, derive_seed
from ..e1 import Case, CommandDriver, Monitor, run_case
from .common import (
    LaunchMonitor, RATES_NONE, RATES_SCHED, base_stats, launched_instances,
    sample_of, swarm_gkw, unexpected_stop, viol_dicts,
)

PID = 'C30'
ENGINE = 'E1'
LEVEL = 'exploration'
RULE = (
    'One case = generated workflow running normally (jobs, messages, polls) '
    'with 1-3 `cylc remove` commands (with and without --flow) whose targets '
    'are picked from the live state at seeded main-loop interception points '
    '(pooled tasks, finished tasks with history, parents of pooled tasks), '
    'preceded in some runs by `trigger --flow=new` (second flow) and '
    '`set --pre` (force-satisfied prerequisites), and followed in some runs '
    'by `set --pre all` on the removed task. The shipped '
    '_remove_matched_tasks is bracketed by pool snapshots; an independent '
    'model computes the expected pool from the snapshot before: target '
    'flows removed (pool membership dropped when none remain); in children '
    'matching the flows, exactly the prerequisite atoms of the target that '
    'were satisfied naturally become unsatisfied (force-satisfied ones stay); '
    'a waiting child whose flows were all matched and that is left with no '
    'satisfied prerequisite is removed, and a child no longer ready is not '
    'queued; every other pooled task is identical before and after. At the '
    'end of the same iteration the task_states/task_outputs rows of the '
    'target hold none of the removed flows; a removed finished task whose '
    'prerequisites are then all set runs again. Distinct = distinct '
    '(program, resolved command list); non-trivial = a removal matched a '
    'task with history or a pooled task and changed a child prerequisite, '
    'removed an orphaned child, or was partial in flows.')
ASSUMPTIONS = [
    'a task in the "none" flow (no flow numbers) is not removable by the '
    'command as shipped; such targets are not judged',
]
TIERS = {
    'quick': {'n': 1200, 'budget_s': 420, 'chunk': 8},
    'thorough': {'n': 10000, 'budget_s': 3000, 'chunk': 20},
}
EXPECTED_PROBES = ['remove_pooled', 'remove_finished', 'remove_partial_flows',
                   'child_prereq_unset', 'child_forced_prereq_kept',
                   'orphan_child_removed', 'rerun_after_remove',
                   'remove_active']
KNOBS = {'span': (2, 5), 'n_tasks': (2, 6), 'p_custom': 0.4,
         'p_runahead': 0.3, 'p_retries': 0.1}

_CUR = [None]
_PATCHED = [False]


def _install_patch():
    if _PATCHED[0]:
        return
    from cylc.flow import commands as cmds
    real = cmds._remove_matched_tasks

    def _remove_matched_tasks(schd, ids, flow_nums, *a, **k):
        w = _CUR[0]
        if w is None:
            return real(schd, ids, flow_nums, *a, **k)
        try:
            before = w.view(schd)
            ids_c = set(ids)
            fn_c = set(flow_nums)
            w.pre_db = w.db_view(schd)
        except Exception as exc:        # pragma: no cover
            raise HarnessError(f'c30 before-view: {exc!r}')
        ret = real(schd, ids, flow_nums, *a, **k)
        try:
            by_cmd = (a[0] if a else k.get('warn_unremovable', True))
            w.judge(schd, ids_c, fn_c, before, by_cmd)
        except Exception:
            # (the command runner swallows exceptions: re-raised from the
            # iteration hook instead)
            import traceback
            w.fail = 'c30 judge: ' + traceback.format_exc()[-900:]
        return ret

    cmds._remove_matched_tasks = _remove_matched_tasks
    _PATCHED[0] = True


def make_params(seed, tier):
    return {'seed': seed}


def gen_cmds(rng, prog, model):
    names = list(prog.tasks)
    valid = [(t, p) for t in names for p in sorted(model._valid[t])]
    cmds = []
    base = rng.randint(3, 30)
    two_flows = rng.random() < 0.4
    if two_flows:
        t, p = rng.choice(valid)
        cmds.append({'iter': max(2, base - rng.randint(1, 12)), 'slot': 0,
                     'name': 'force_trigger_tasks', 'kwargs': {
                         'tasks': [prog.iid(t, p)], 'flow': ['new']}})
    if rng.random() < 0.35:
        cmds.append({'iter': max(2, base - rng.randint(0, 3)), 'slot': 0,
                     'name': 'set', 'pick': {
                         'kind': 'pooled_waiting', 'u': rng.random(), 'n': 1},
                     'kwargs': {'flow': [], 'prerequisites': ['all']}})
    it = base
    for k in range(rng.randint(1, 3)):
        r = rng.random()
        kind = ('pooled' if r < 0.3 else 'finished' if r < 0.55
                else 'parent' if r < 0.9 else 'any')
        if two_flows:
            flow = rng.choice([[], ['1'], ['2'], ['1', '2'], ['3']])
        else:
            flow = rng.choice([[], [], ['1'], ['2']])
        c = {'iter': it, 'slot': rng.randint(0, 1), 'name': 'remove_tasks',
             'pick': {'kind': kind, 'u': rng.random(),
                      'n': rng.choice([1, 1, 2]), 'u2': rng.random()},
             'kwargs': {'flow': flow}}
        cmds.append(c)
        if rng.random() < 0.5:
            cmds.append({'iter': it + rng.randint(1, 2), 'slot': 0,
                         'name': 'set', 'pick': {'kind': 'last_removed'},
                         'kwargs': {'flow': [], 'prerequisites': ['all']}})
        it += rng.randint(1, 8)
    cmds.sort(key=lambda c: (c['iter'], c['slot']))
    return cmds


def db_rows(run_dir, table, cycle, name):
    path = os.path.join(run_dir, '.service', 'db')
    con = sqlite3.connect(f'file:{path}?mode=ro', uri=True)
    try:
        cols = 'flow_nums, status' if table == 'task_states' else (
            'flow_nums, outputs')
        return con.execute(
            f'SELECT {cols} FROM {table} WHERE cycle=? AND name=?',
            (cycle, name)).fetchall()
    finally:
        con.close()


class Picker(CommandDriver):
    """Resolves command targets against the live state."""

    def __init__(self, schedule, watch):
        super().__init__(schedule)
        self.watch = watch

    def resolve(self, h, c):
        pick = c.get('pick')
        if not pick:
            return c['kwargs']
        schd = h.schd
        res = self.watch.res
        prog = res.prog
        pool = sorted(i.identity for i in schd.pool.get_tasks())
        kind = pick['kind']
        if kind == 'last_removed':
            t = self.watch.last_full_removed
            if t is None or schd.stop_mode is not None:
                return None         # (nothing removed / already shutting down)
            self.watch.rerun_expected.append((t, CLOCK.t))
            self.watch.born = t
            # (one follow-up per removal: a second `set` would find the task
            # back in the pool, in whatever state it has reached)
            self.watch.last_full_removed = None
            kw = dict(c['kwargs'])
            kw['tasks'] = [t]
            return kw
        if kind == 'pooled_waiting':
            cand = sorted(i.identity for i in schd.pool.get_tasks()
                          if i.state.status == 'waiting' and
                          not i.state.prerequisites_all_satisfied())
        elif kind == 'pooled':
            cand = pool
        elif kind == 'finished':
            done = set()
            for _t, key in h.world.launch_log:
                done.add(f'{key[0]}/{key[1]}')
            cand = sorted(done - set(pool))
        elif kind == 'parent':
            par = set()
            for i in schd.pool.get_tasks():
                for p in i.state.prerequisites:
                    for k, v in p.items():
                        if v:
                            par.add(f'{k.point}/{k.task}')
            cand = sorted(par)
        else:
            cand = sorted(prog.iid(t, p) for t in prog.tasks
                          for p in res.model._valid[t])
        cand = [x for x in cand if x.split('/')[1] in prog.tasks]
        if not cand:
            cand = pool
        if not cand:
            return None
        ids = [cand[int(pick['u'] * len(cand)) % len(cand)]]
        if pick.get('n', 1) > 1:
            extra = sorted(set(cand + pool) - set(ids))
            if extra:
                ids.append(extra[int(pick['u2'] * len(extra)) % len(extra)])
        kw = dict(c['kwargs'])
        kw['tasks'] = ids
        return kw


class RemoveWatch(Monitor):
    def __init__(self):
        self.pending_db = []
        self.pre_db = (set(), set())
        self.last_full_removed = None
        self.rerun_expected = []
        self.removed_log = []
        self.nontrivial = False
        self.fail = None
        self.born = None

    def attach(self, h, res, case):
        self.res = res
        self.h = h
        _install_patch()
        _CUR[0] = self
        h.iter_hooks.append(self.post)

    # -- state views -------------------------------------------------------
    def db_view(self, schd, stored=True):
        """(tasks with queued history inserts, tasks with stored rows)."""
        mgr = schd.workflow_db_mgr
        queued = set()
        for table in (mgr.TABLE_TASK_STATES, mgr.TABLE_TASK_OUTPUTS):
            for row in mgr.db_inserts_map.get(table, []):
                if isinstance(row, dict):
                    queued.add(f"{row.get('cycle')}/{row.get('name')}")
        have = set()
        if stored:
            path = os.path.join(self.h.run_dir, '.service', 'db')
            con = sqlite3.connect(f'file:{path}?mode=ro', uri=True)
            try:
                for table in ('task_states', 'task_outputs'):
                    for c, n in con.execute(
                            f'SELECT DISTINCT cycle, name FROM {table}'):
                        have.add(f'{c}/{n}')
            finally:
                con.close()
        return queued, have

    def view(self, schd):
        from cylc.flow.task_state import TASK_STATUS_PREPARING
        out = {}
        for i in schd.pool.get_tasks():
            pr = {}
            for p in i.state.prerequisites:
                for k, v in p._satisfied.items():
                    pr[(str(k.point), k.task, k.output)] = v
            sp = {}
            for p in i.state.suicide_prerequisites:
                for k, v in p._satisfied.items():
                    sp[(str(k.point), k.task, k.output)] = v
            out[i.identity] = {
                'flows': set(i.flow_nums),
                'status': i.state.status,
                'gte_prep': i.state.is_gte(TASK_STATUS_PREPARING),
                'queued': bool(i.state.is_queued),
                'held': bool(i.state.is_held),
                'prereqs': pr, 'suicide': sp,
                'all_sat': i.state.prerequisites_all_satisfied(),
                'outputs': set(i.state.outputs.get_completed_outputs()),
                'submit_num': i.submit_num,
                'oid': id(i),
            }
        return out

    @staticmethod
    def match(flows, F):
        if not F or not flows:
            return set(flows)
        return flows & F

    def judge(self, schd, ids, F, before, by_cmd=True):
        res = self.res
        prog, model = res.prog, res.model
        after = self.view(schd)
        targets = sorted(t.relative_id for t in ids)
        exp = copy.deepcopy(before)
        full, partial = [], []
        for T in targets:
            if T in before:
                P = before[T]['flows']
                R = self.match(P, F)
                if not P:
                    exp[T]['nojudge'] = True       # none-flow: see ASSUMPTIONS
                    continue
                if not R:
                    continue
                res.sim.probe('remove_pooled')
                if before[T]['status'] in ('submitted', 'running',
                                           'preparing'):
                    res.sim.probe('remove_active')
                if R == P:
                    exp.pop(T)
                    full.append(T)
                else:
                    exp[T]['flows'] = P - R
                    partial.append(T)
                    res.sim.probe('remove_partial_flows')
        tset = set(targets)
        changed_kids = {}
        either = set()
        for C in sorted(exp):
            st = exp[C]
            if st.get('nojudge'):
                continue
            m = self.match(st['flows'], F)
            if C in partial:
                # a child that is itself a target, removed from some of its
                # flows only: whether it still matches depends on the order
                # in which the targets are processed; not judged
                either.add(C)
                continue
            if not m:
                continue
            ch = False
            for table in ('prereqs', 'suicide'):
                for key, sat in list(st[table].items()):
                    src = f'{key[0]}/{key[1]}'
                    if src in tset and sat:
                        if sat != 'force satisfied':
                            st[table][key] = False
                            ch = True
                            res.sim.probe('child_prereq_unset')
                        else:
                            res.sim.probe('child_forced_prereq_kept')
            if ch:
                changed_kids[C] = m
        orphans = []
        for C, m in changed_kids.items():
            st = exp[C]
            if st['gte_prep'] or st['flows'] != m:
                continue
            if C in tset:
                continue
            if not any(st['prereqs'].values()):
                orphans.append(C)
        for C in orphans:
            exp.pop(C)
            res.sim.probe('orphan_child_removed')
        # --- compare ---------------------------------------------------
        detail = {'targets': targets, 'flows': sorted(F)}
        for ident in sorted(set(exp) | set(after)):
            e, a = exp.get(ident), after.get(ident)
            if e is not None and e.get('nojudge'):
                continue
            if e is None and a is not None:
                if ident in before:
                    if ident in full:
                        # known finding C30-F3: the proxy found in the pool is
                        # a new one, built inside the command by the release
                        # of a runahead-limited task (spawn_next_parentless)
                        # from the history rows that the removal has only
                        # queued for erasure: it carries the old status and
                        # job number and has no job
                        b_ = before[ident]
                        fresh = (a.get('oid') != b_.get('oid')
                                 and a['gte_prep'] and a['status'] == b_['status']
                                 and a['submit_num'] == b_['submit_num'])
                        res.violate('removed_target_left_in_pool', dict(
                            detail, task=ident, flows=sorted(a['flows']),
                            status=a['status'], submit_num=a['submit_num'],
                            predicates=(
                                ['respawned_from_history_not_yet_erased']
                                if fresh else [])))
                    else:
                        res.violate('orphaned_child_left_in_pool', dict(
                            detail, child=ident,
                            prereqs={'/'.join(k): v
                                     for k, v in a['prereqs'].items()}))
                else:
                    c2, n2 = ident.split('/')
                    if n2 in prog.tasks and model.parentless(
                            n2, prog.ppoint(c2)):
                        continue
                    res.violate('remove_spawned_task', dict(detail, task=ident))
                continue
            if a is None:
                if ident in tset:
                    res.violate('target_removed_from_pool_with_flows_left',
                                dict(detail, task=ident,
                                     expected_flows=sorted(e['flows'])))
                elif ident in changed_kids:
                    res.violate('child_with_satisfied_prerequisite_removed',
                                dict(detail, child=ident,
                                     prereqs={'/'.join(k): v for k, v in
                                              e['prereqs'].items()}))
                else:
                    res.violate('unrelated_task_removed',
                                dict(detail, task=ident))
                continue
            if e['flows'] != a['flows']:
                c2, n2 = ident.split('/')
                if (ident not in tset and e['flows'] <= a['flows']
                        and n2 in prog.tasks
                        and model.parentless(n2, prog.ppoint(c2))
                        and any(T.split('/')[1] == n2 and
                                a['flows'] - e['flows'] <= before[T]['flows']
                                for T in full)):
                    # next parentless instance of a removed runahead-limited
                    # task, spawned (merged) by TaskPool.remove
                    res.sim.probe('next_parentless_merged')
                    continue
                rule = ('target_flows_not_removed' if ident in tset
                        else 'unrelated_task_flows_changed')
                pr_ = []
                if (ident in tset and e['flows'] <= a['flows']
                        and n2 in prog.tasks
                        and model.parentless(n2, prog.ppoint(c2))
                        and any(T != ident and T.split('/')[1] == n2 and
                                a['flows'] - e['flows'] <= before[T]['flows']
                                for T in targets if T in before)):
                    # known finding C30-F4: the same mechanism, but the next
                    # parentless instance is itself a target of the command
                    # and was handled before its predecessor: the flow comes
                    # back
                    pr_ = ['flow_merged_back_from_removed_parentless_predecessor']
                res.violate(rule, dict(detail, task=ident,
                                       expected=sorted(e['flows']),
                                       got=sorted(a['flows']),
                                       predicates=pr_))
            for table in ('prereqs', 'suicide'):
                for key in sorted(set(e[table]) | set(a[table])):
                    ev, av = e[table].get(key), a[table].get(key)
                    if bool(ev) == bool(av):
                        continue
                    if ident in either and f'{key[0]}/{key[1]}' in tset:
                        continue
                    src = f'{key[0]}/{key[1]}'
                    if src in tset and ev is False and av:
                        rule = 'natural_prerequisite_not_unset'
                    elif src in tset and ev and not av:
                        rule = 'forced_or_unmatched_prerequisite_unset'
                    else:
                        rule = 'unrelated_prerequisite_changed'
                    res.violate(rule, dict(detail, child=ident,
                                           prerequisite='/'.join(key),
                                           before=str(before.get(ident, {})
                                                      .get(table, {}).get(key)),
                                           after=str(av)))
            if e['outputs'] != a['outputs'] or (
                    e['status'] != a['status']):
                res.violate('unrelated_task_state_changed', dict(
                    detail, task=ident,
                    before=[e['status'], sorted(e['outputs'])],
                    after=[a['status'], sorted(a['outputs'])]))
            if (ident in changed_kids and not e['gte_prep']
                    and e['flows'] == changed_kids[ident]
                    and not a['all_sat'] and a['queued']):
                res.violate('unready_child_left_queued', dict(
                    detail, child=ident))
        if changed_kids or orphans or partial:
            self.nontrivial = True
        if not by_cmd:
            return      # called by group trigger: history is rewritten next
        # --- DB expectations, checked at the end of this iteration ----------
        # (rows still queued when the command started, or still queued now:
        # the removal's SELECT cannot see them -- finding C30-F2)
        queued_pre, stored_pre = self.pre_db
        queued = set(queued_pre) | self.db_view(schd, stored=False)[0]
        for T in targets:
            if T in before and before[T].get('flows') == set():
                continue
            if (T not in before and T not in stored_pre
                    and T not in queued_pre):
                continue    # nothing existed to erase: a row seen later was
                            # written by a later (natural) spawn
            self.pending_db.append((T, set(F), self.h.iterations,
                                    T in queued))
            had_hist = any(f'{k[0]}/{k[1]}' == T
                           for _t, k in self.h.world.launch_log)
            if had_hist and T not in before:
                res.sim.probe('remove_finished')
                self.nontrivial = True
        for C in orphans:
            self.pending_db.append((C, set(changed_kids[C]),
                                    self.h.iterations, C in queued))
        self.removed_log.append((CLOCK.t, targets, sorted(F)))
        fin = [T for T in targets
               if T not in after and (not F) and any(
                   f'{k[0]}/{k[1]}' == T for _t, k in self.h.world.launch_log)]
        self.last_full_removed = fin[0] if fin else None

    def post(self, h):
        if self.fail:
            raise HarnessError(self.fail)
        if self.born and h.schd is not None:
            # no hold command is ever issued in this workload
            T, self.born = self.born, None
            for i in h.schd.pool.get_tasks():
                if i.identity == T and i.state.is_held:
                    self.res.violate('respawned_task_born_held', {
                        'task': T, 'tasks_to_hold': sorted(
                            f'{p}/{n}' for n, p in h.schd.pool.tasks_to_hold)})
        if not self.pending_db or h.schd is None:
            return
        pend, self.pending_db = self.pending_db, []
        pool = {i.identity: set(i.flow_nums) for i in h.schd.pool.get_tasks()}
        for T, F, it, was_queued in pend:
            if T in pool and (not F or not pool[T] or pool[T] & F):
                continue        # (back) in the pool in these flows: rows
                                # legitimately (re)written
            cyc, name = T.split('/')
            for table in ('task_states', 'task_outputs'):
                for fl, _x in db_rows(h.run_dir, table, cyc, name):
                    try:
                        fs = set(json.loads(fl))
                    except ValueError:
                        fs = set()
                    bad = fs if not F else fs & F
                    if bad:
                        self.res.violate('history_not_erased', {
                            'task': T, 'flows_removed': sorted(F) or 'all',
                            'table': table, 'row_flows': sorted(fs),
                            'predicates': (['history_rows_still_queued']
                                           if was_queued else [])})


def run(params):
    seed = params['seed']
    rng = random.Random(derive_seed(seed, 'c30'))
    gkw = swarm_gkw(rng)
    rates = RATES_NONE if rng.random() < 0.6 else RATES_SCHED
    case = Case(seed, knobs=KNOBS, rates=rates,
                policy=rng.choice(['complete', 'complete', 'any']),
                gkw=gkw, opts={})
    case.choices = params.get('choices')
    case.build()
    from ..refmodel import Model
    model = Model(case.prog, None)
    cmds = params.get('cmds') or gen_cmds(rng, case.prog, model)
    rw = RemoveWatch()
    drv = Picker([dict(c) for c in cmds], rw)
    try:
        res = run_case(case, monitors=[
            LaunchMonitor(check_prereqs=False), drv, rw])
    finally:
        _CUR[0] = None
    if res.error or rw.fail:
        return {'error': res.error or rw.fail, 'violations': [], 'stats': {}}
    launches = {}
    for t, key in res.world.launch_log:
        launches.setdefault(f'{key[0]}/{key[1]}', []).append(t)
    if res.stops[-1] == 'stop:AUTOMATIC':
        for T, t_set in rw.rerun_expected:
            if any(t >= t_set - 1e-9 and T in tg
                   for t, tg, _f in rw.removed_log):
                continue        # removed again after the set
            cyc, name = T.split('/')
            if res.prog.ppoint(cyc) > res.model.stop:
                continue
            if not any(t >= t_set for t in launches.get(T, [])):
                preds = []
                old_jobs = {k for t, k in res.world.launch_log
                            if t < t_set and f'{k[0]}/{k[1]}' == T}
                late = [(t, list(k), m) for t, k, m in res.world.msg_log
                        if k in old_jobs and t >= t_set - 1e-9]
                if not late:
                    # ... or the answer of a poll of the old job (not a job
                    # message, so not in the message log), or a message
                    # that came between the removal and the set: either
                    # way the respawned proxy went from waiting straight to
                    # an active or final status without a job of its own
                    import re
                    jump = re.compile(
                        r'^\[%s:waiting[^\]]*\] => '
                        r'(submitted|running|succeeded|failed)' % re.escape(T))
                    if any(jump.match(m) for _l, m in res.log):
                        late = ['(status moved by a message or poll answer '
                                'of the removed job)']
                if late:
                    preds.append('orphan_job_message_after_respawn')
                res.violate('removed_task_did_not_run_again', {
                    'task': T, 't_set_pre_all': t_set,
                    'launch_times': launches.get(T, []),
                    'late_messages_of_removed_job': late[:4],
                    'predicates': preds})
            else:
                res.sim.probe('rerun_after_remove')
    resolved = [(d[2], d[3], str(d[4])) for d in res.commands_done]
    nontriv = None
    if rw.nontrivial:
        nontriv = [res.prog.render(), resolved]
    return {'violations': viol_dicts(res, PID, {}),
            'stats': base_stats(res, nontriv),
            'sample': sample_of(res, {'commands': resolved})}
