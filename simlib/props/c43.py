"""C43 Stop point, stop task and stop modes (engine E1, exploration)."""
import os
import random
import sqlite3

from ..boot import CLOCK
from ..core import derive_seed
from ..e1 import Case, CommandDriver, Monitor, run_case, snapshot
from ..monitors import InvariantMonitor
from . import c19
from .common import (
    FinalDbMonitor, LaunchMonitor, RATES_NONE, RATES_SCHED, base_stats,
    launched_instances, sample_of, swarm_gkw, unexpected_stop, viol_dicts,
)

PID = 'C43'
ENGINE = 'E1'
LEVEL = 'exploration'
RULE = (
    'One case = generated workflow + one stop scenario at a seeded main-loop '
    'iteration: stop <cycle point>, stop <task>, stop (clean), stop --now, '
    'stop --now --now, stop --kill; followed by a restart and continuation '
    'where the scheduler was stopped by request. Checks: nothing enters job '
    'preparation beyond a stop point in force (tracked from the command '
    'history); the run shuts down by itself once everything at or before the '
    'point has run; the stop point is cleared from the DB once reached and '
    'otherwise restored by the restart; with a stop task the scheduler stops '
    'after that task succeeded and launches nothing more; a clean stop exits '
    'with no submitted/running task; stop --now leaves active tasks recorded '
    'active and the restart recovers them (continued run = uninterrupted '
    'run). Distinct = distinct (program, scenario, iteration); non-trivial = '
    'the stop request arrived while jobs were active or tasks beyond the '
    'point were already pooled.')
ASSUMPTIONS = ['jobs keep running while the scheduler is down',
               'kill commands are answered by the simulated job runner']
TIERS = {
    'quick': {'n': 700, 'budget_s': 420, 'chunk': 8},
    'thorough': {'n': 14000, 'budget_s': 3000, 'chunk': 20},
}
EXPECTED_PROBES = ['stop_point_cmd', 'stop_task_cmd', 'clean_stop',
                   'now_stop', 'kill_stop', 'stop_with_active_tasks',
                   'stop_point_cleared_when_reached']
KNOBS = {'p_retries': 0.3, 'p_runahead': 0.5, 'span': (3, 6),
         'n_tasks': (2, 5)}
SCENARIOS = ['stop_point', 'stop_point', 'stop_task', 'clean', 'now', 'kill',
             'nownow']


def make_params(seed, tier):
    return {'seed': seed}


class StopPointWatch(Monitor):
    """Tracks the stop point in force from the command history and checks
    every entry into job preparation against it."""

    def __init__(self):
        self.stop = None
        self.t_set = None

    def attach(self, h, res, case):
        from .. import monitors
        self.res = res
        self.h = h
        self.inner = None
        h.iter_hooks.append(self.watch)
        self.seen_prep = set()
        self.stop = res.prog.stop
        self.t_set = 0.0 if self.stop is not None else None

    def watch(self, h):
        """Poll the real stop point each iteration (set by command)."""
        schd = h.schd
        if schd is None or not hasattr(schd, 'pool'):
            return
        sp = schd.config.stop_point
        cur = self.res.prog.ppoint(str(sp)) if sp is not None else None
        act = {(i.identity, i.submit_num) for i in schd.pool.get_tasks()
               if i.state.status in ('preparing', 'submitted', 'running')}
        if cur != self.stop:
            self.stop = cur
            self.t_set = CLOCK.t
            # active when the point was set (this iteration or the last)
            self.active_at_set = act | self.prev_act
        self.prev_act = act
        for i in schd.pool.get_tasks():
            if i.state.status == 'preparing' and i.identity not in self.seen_prep:
                self.seen_prep.add((i.identity, i.submit_num))
        # tasks that enter preparation beyond the stop point in force
        if self.stop is None:
            return
        for i in schd.pool.get_tasks():
            key = (i.identity, i.submit_num)
            if i.state.status in ('preparing', 'submitted', 'running'):
                p = self.res.prog.ppoint(str(i.point))
                t0 = self.first_active.setdefault(key, CLOCK.t)
                if (p > self.stop and t0 > self.t_set + 1.5
                        and not i.is_manual_submit
                        and key not in self.flagged):
                    self.flagged.add(key)
                    # known finding: automatic retry of a task that was
                    # already active when the stop point was set
                    earlier = [j for k, j in self.res.world.jobs.items()
                               if k[0] == str(i.point) and k[1] == i.tdef.name
                               and k[2] < i.submit_num
                               and j.t_submit <= self.t_set + 1.5] or [
                        k for k in self.active_at_set
                        if k[0] == i.identity and k[1] < i.submit_num]
                    self.res.violate('entered_preparation_beyond_stop_point', {
                        'task': i.identity, 'stop_point': self.res.prog.pstr(self.stop),
                        'stop_point_set_at': self.t_set, 'active_since': t0,
                        'submit_num': i.submit_num,
                        'predicates': ['retry_of_task_active_when_stop_point_set']
                        if earlier else []})

    first_active = None
    flagged = None
    active_at_set = frozenset()
    prev_act = frozenset()


def read_stopcp(run_dir):
    path = os.path.join(run_dir, '.service', 'db')
    if not os.path.exists(path):
        return 'nodb'
    con = sqlite3.connect(f'file:{path}?mode=ro', uri=True)
    try:
        rows = con.execute(
            "SELECT value FROM workflow_params WHERE key='stopcp'").fetchall()
    finally:
        con.close()
    return rows[-1][0] if rows else None


def set_during_shutdown(res):
    """The (last) stop point was set while the scheduler was already
    draining its process pool for shutdown."""
    msgs = [m for _l, m in res.log]
    sets = [n for n, m in enumerate(msgs) if m.startswith('Setting stop point')]
    if not sets:
        return False
    start = max([n for n, m in enumerate(msgs[:sets[-1]])
                 if m.startswith('Workflow: ')] or [0])
    return any(m.startswith('Waiting for the command process pool to empty')
               for m in msgs[start:sets[-1]])


def run(params):
    seed = params['seed']
    rng = random.Random(derive_seed(seed, 'c43'))
    from cylc.flow.workflow_status import StopMode
    scen = params.get('scenario') or SCENARIOS[seed % len(SCENARIOS)]
    gkw = swarm_gkw(rng)
    rates = RATES_NONE

    def mkcase():
        c = Case(seed, knobs=KNOBS, rates=rates, policy='complete', gkw=gkw)
        c.build()
        # half of the workflows have limited queues, so that tasks are
        # queued behind a limit when the stop request arrives
        qr = random.Random(derive_seed(seed, 'queues'))
        if qr.random() < 0.5:
            from . import c05
            c05.prog_hook(c.prog, qr)
        return c
    c0 = mkcase()
    prog = c0.prog
    base = run_case(c0, monitors=[LaunchMonitor(), FinalDbMonitor()])
    if base.error:
        return {'error': 'base: ' + base.error, 'violations': [], 'stats': {}}
    it = rng.randint(2, max(3, base.iterations - 2))
    pts = list(range(prog.icp, prog.fcp + 1))
    cmds = []
    stop_task = None
    stop_pt = None
    stop_pt2 = None
    if scen == 'stop_point':
        stop_pt = rng.choice(pts[:-1] or pts)
        cmds.append({'incarnation': 0, 'iter': it, 'slot': rng.randint(0, 1),
                     'name': 'stop', 'kwargs': {
                         'mode': None, 'cycle_point': prog.pstr(stop_pt)}})
    elif scen == 'stop_task':
        lb = sorted(launched_instances(base)) or sorted(
            (t_, p_) for t_ in prog.tasks for p_ in base.model._valid[t_])
        t, p = rng.choice(lb)
        stop_task = (t, p)
        it_t = rng.randint(1, 3)
        cmds.append({'incarnation': 0, 'iter': it_t, 'slot': 0,
                     'name': 'stop', 'kwargs': {
                         'mode': None, 'task': prog.iid(t, p)}})
        # half of the cases: a stop point beyond the stop task as well; when
        # the stop task ends the run the point has not been reached and
        # must survive in the DB
        r2 = random.Random(derive_seed(seed, 'c43-stop-point-too'))
        later = [q for q in pts if q > p]
        if later and r2.random() < 0.5:
            stop_pt2 = r2.choice(later)
            cmds.append({'incarnation': 0, 'iter': it_t, 'slot': 1,
                         'name': 'stop', 'kwargs': {
                             'mode': None, 'cycle_point': prog.pstr(stop_pt2)}})
    else:
        mode = {'clean': StopMode.REQUEST_CLEAN, 'now': StopMode.REQUEST_NOW,
                'kill': StopMode.REQUEST_KILL,
                'nownow': StopMode.REQUEST_NOW_NOW}[scen]
        cmds.append({'incarnation': 0, 'iter': it, 'slot': rng.randint(0, 1),
                     'name': 'stop', 'kwargs': {'mode': mode}})
    c1 = mkcase()
    sr = c19.StopRestart([{'incarnation': 0, 'downtime': rng.choice([0.0, 5.0, 30.0])}])
    spw = StopPointWatch()
    spw.first_active = {}
    spw.flagged = set()
    exit_snaps = []

    def lifecycle(h, res):
        info = h.run_once()
        res.stops.append(info.reason)
        exit_snaps.append((info.reason, snapshot(h) if h.schd is not None
                           and hasattr(h.schd, 'pool') else None,
                           read_stopcp(h.run_dir), CLOCK.t))
        if info.reason.startswith('stop:REQUEST') and scen != 'kill':
            sr.pending_s1 = exit_snaps[-1][1]
            h.world.downtime(sr.stops[0]['downtime'])
            info = h.run_once()
            res.stops.append(info.reason)
            exit_snaps.append((info.reason, None, read_stopcp(h.run_dir), CLOCK.t))
    res = run_case(c1, monitors=[
        LaunchMonitor(), InvariantMonitor(commands=True), CommandDriver(cmds),
        sr, spw, FinalDbMonitor()], lifecycle=lifecycle)
    if res.error:
        return {'error': res.error, 'violations': [], 'stats': {}}
    sim = res.sim
    sim.probe({'stop_point': 'stop_point_cmd', 'stop_task': 'stop_task_cmd',
               'clean': 'clean_stop', 'now': 'now_stop', 'kill': 'kill_stop',
               'nownow': 'now_stop'}[scen])
    first_reason, first_snap, first_stopcp, t_exit = exit_snaps[0]
    cmd_done = bool(getattr(res, 'commands_done', []))
    lr = launched_instances(res)
    lb = launched_instances(base)
    if 'inactivity timeout' in res.stops[-1] and (
            'inactivity timeout' not in base.stops[-1]):
        # hung: neither shut down nor stalled
        pr = []
        snap = exit_snaps[-1][1] or first_snap
        if snap and scen == 'stop_point':
            sp = snap.get('stop_point')
            blocked = []
            for ident, d in snap['tasks'].items():
                p = prog.ppoint(ident.split('/')[0])
                if sp is None or p > prog.ppoint(sp):
                    continue
                for k, sat in d['prereqs'].items():
                    if not sat and prog.ppoint(k.split('/')[0]) > prog.ppoint(sp):
                        blocked.append(ident)
            if blocked:
                pr = ['pooled_task_waits_on_parent_beyond_new_stop_point']
        res.violate('hung_until_inactivity_timeout', {
            'stops': res.stops, 'scenario': scen,
            'pool': {k: v['status'] for k, v in (snap or {'tasks': {}})['tasks'].items()},
            'predicates': pr})
    elif unexpected_stop(res.stops[-1]) and not unexpected_stop(base.stops[-1]):
        res.violate('scheduler_aborted_unexpectedly', {
            'stops': res.stops, 'log_tail': res.log_tail[-5:]})
    elif cmd_done and scen == 'stop_point':
        # everything of the uninterrupted run at or before the point ran
        # (instances whose upstream cone reaches beyond the stop point
        # cannot run and are not expected)
        model = res.model
        memo = {}

        def reach(i, depth=0):
            if i in memo:
                return memo[i]
            memo[i] = r = i[1]
            if depth < 50:
                for e in model.prereq_exprs(*i):
                    for a in model.conc_atoms(e):
                        u = (a[0], a[1])
                        # (any operand beyond the point, even one of an `|`
                        # and even beyond the final point, stops the spawn:
                        # TaskPool.spawn_task goes by target points alone)
                        r = max(r, a[1])
                        if u in lb:
                            r = max(r, reach(u, depth + 1))
            memo[i] = r
            return r
        must = {i for i in lb if reach(i) <= stop_pt}
        if base.stops[-1] == 'stop:AUTOMATIC':
            if not must <= set(lr):
                res.violate('instance_before_stop_point_not_run', {
                    'missing': sorted(prog.iid(*i) for i in must - set(lr)),
                    'stop_point': prog.pstr(stop_pt)})
            if res.stops[-1] != 'stop:AUTOMATIC':
                # known finding C43-F1, second face: a task at or before the
                # point was already pooled, waiting on a parent beyond the
                # point, when the command set it; if its other unsatisfied
                # prerequisites are not beyond the point the stall check
                # does see it and the run ends as a stall, not a shutdown
                pr = []
                snap = exit_snaps[-1][1] or first_snap
                sp = (snap or {}).get('stop_point')
                if snap and sp is not None and 'stall' in res.stops[-1]:
                    waiting = blocked = 0
                    for ident, d in snap['tasks'].items():
                        if d['status'] != 'waiting' or (
                                prog.ppoint(ident.split('/')[0]) >
                                prog.ppoint(sp)):
                            continue
                        waiting += 1
                        if any(not sat and prog.ppoint(k.split('/')[0]) >
                               prog.ppoint(sp)
                               for k, sat in d['prereqs'].items()):
                            blocked += 1
                    if waiting and waiting == blocked:
                        pr = ['pooled_task_waits_on_parent_beyond_new_stop_point']
                res.violate('no_auto_shutdown_at_stop_point', {
                    'stops': res.stops, 'predicates': pr})
            elif set_during_shutdown(res):
                # the automatic shutdown had been decided (and the stop point
                # question settled) before the command was actioned
                sim.probe('stop_point_set_during_shutdown')
            elif exit_snaps[-1][2] is not None:
                res.violate('stop_point_not_cleared_once_reached', {
                    'db_stopcp': exit_snaps[-1][2]})
            else:
                sim.probe('stop_point_cleared_when_reached')
        beyond = [i for i in lr if i[1] > stop_pt]
        if beyond or any(i[1] > stop_pt for i in lb):
            sim.probe('tasks_beyond_point_existed')
    elif cmd_done and scen == 'stop_task':
        key = prog.pstr(stop_task[1]), stop_task[0]
        jobs = [j for k, j in res.world.jobs.items()
                if (k[0], k[1]) == key and j.final == 'succeeded'
                and j.submit_ok]
        t_cmd0 = res.commands_done[0][0]
        if jobs and min(j.end_time() for j in jobs) <= t_cmd0 + 1.0:
            # the stop task had already succeeded when the command arrived:
            # nothing is promised then (the run simply continues)
            sim.probe('stop_task_already_finished')
            jobs = []
        if jobs and res.stops[0] == 'stop:AUTOMATIC':
            t_succ = min(j.end_time() for j in jobs)
            late = [list(k) for t, k in res.launches if t > t_succ + 12.0]
            if late:
                res.violate('launched_long_after_stop_task_succeeded', {
                    'stop_task': prog.iid(*stop_task), 'succeeded_at': t_succ,
                    'late_launches': late[:5]})
            extra = set(lb) - set(lr)
            if extra:
                sim.probe('stop_task_cut_the_run_short')
        elif jobs and base.stops[-1] == 'stop:AUTOMATIC' and (
                res.stops[0] != 'stop:AUTOMATIC'):
            res.violate('no_shutdown_after_stop_task', {'stops': res.stops})
        msgs = [m for _l, m in res.log]
        if stop_pt2 is not None and res.stops[0] == 'stop:AUTOMATIC' and any(
                m.startswith('Setting stop point') for m in msgs) and any(
                m.startswith('Stop task ') and m.endswith(' finished')
                for m in msgs) and not set_during_shutdown(res):
            # the stop task ended the run: the stop point was not reached
            if first_stopcp is None:
                res.violate('stop_point_forgotten_before_reached', {
                    'stop_task': prog.iid(*stop_task),
                    'stop_point': prog.pstr(stop_pt2)})
            else:
                sim.probe('stop_point_kept_when_stop_task_ended_run')
    elif cmd_done and scen in ('clean', 'now', 'nownow', 'kill'):
        if first_reason.startswith('stop:REQUEST') and first_snap:
            act = {t: d['status'] for t, d in first_snap['tasks'].items()
                   if d['status'] in ('submitted', 'running')}
            now_active = [k for k, j in res.world.jobs.items()
                          if j.active(t_exit)]
            t_cmd = res.commands_done[0][0]
            launch_t = {k: t for t, k in res.launches}
            inflight = bool(now_active) and all(
                launch_t.get(k, -1e9) >= t_cmd - 3.0 for k in now_active)
            pr = ['job_submission_in_flight_when_stop_arrived'] if inflight else []
            if scen == 'clean' and now_active:
                res.violate('clean_stop_left_jobs_running', {
                    'jobs': [list(k) for k in now_active], 'tasks': act,
                    'predicates': pr})
            if scen in ('now', 'nownow') and now_active:
                sim.probe('stop_with_active_tasks')
                # they must still be recorded active
                for k in now_active:
                    ident = f'{k[0]}/{k[1]}'
                    st = first_snap['tasks'].get(ident, {}).get('status')
                    if scen == 'now' and st not in ('submitted', 'running',
                                                    'preparing'):
                        res.violate('now_stop_lost_active_task', {
                            'job': list(k), 'recorded_status': st})
            if scen == 'kill' and now_active:
                res.violate('kill_stop_left_jobs_running', {
                    'jobs': [list(k) for k in now_active], 'predicates': pr})
        # stop --now / clean: the restarted run completes the uninterrupted one
        if scen in ('clean', 'now') and len(res.stops) > 1:
            from .c19 import late_custom_downstream
            if set(lb) != set(lr) and not (set(lr) - set(lb)) and (
                    late_custom_downstream(res, set(lb) - set(lr), never=True)):
                # a custom output message sent while the scheduler was down
                # was lost for good (C19-F1 / C10-F1: judged by C19, not a
                # matter of stopping and restarting)
                sim.probe('custom_output_lost_while_down')
            elif set(lb) != set(lr):
                res.violate('continued_run_instances_differ', {
                    'only_uninterrupted': sorted(prog.iid(*i) for i in set(lb) - set(lr)),
                    'only_continued': sorted(prog.iid(*i) for i in set(lr) - set(lb)),
                    'stops': res.stops})
    nontriv = None
    if cmd_done and (sim.probes.get('stop_with_active_tasks') or
                     sim.probes.get('tasks_beyond_point_existed') or
                     sim.probes.get('stop_task_cut_the_run_short') or
                     scen in ('clean', 'kill')):
        nontriv = [prog.render(), scen, it]
    return {'violations': viol_dicts(res, PID, {}),
            'stats': base_stats(res, nontriv),
            'sample': sample_of(res, {'scenario': scen, 'iteration': it,
                                      'stops': res.stops})}
