"""C31 Sequential tasks (engine E1, exploration). See DESIGN.md section 7."""
from .common import generic_run, FinalDbMonitor, launched_instances

PID = 'C31'
ENGINE = 'E1'
LEVEL = 'exploration'
RULE = ('One case = generated workflow in which 1-2 tasks are declared sequential (on one or more recurrences, with parents or without), runahead limits, retries and failures + seeded schedule. From the launch/finish history: jobs of different instances of a sequential task never overlap, and each instance is launched only after the previous valid instance succeeded. A share of the cases reloads the unchanged definition once in mid-run. Distinct = distinct (program, schedule digest); non-trivial = a sequential task ran at 2 or more cycle points.')
ASSUMPTIONS = [
    'jobs, polls, submissions, message transport and the clock are simulated',
    'reference model / invariants cover the generated workflow sub-language',
]
TIERS = {
    'quick': {'n': 1000, 'budget_s': 420, 'chunk': 10},
    'thorough': {'n': 20000, 'budget_s': 3000, 'chunk': 25},
}
EXPECTED_PROBES = ['sequential_multi_point']


def make_params(seed, tier):
    return {'seed': seed}

from ..boot import CLOCK
from ..e1 import Monitor

KNOBS = {'p_retries': 0.4, 'p_runahead': 0.6, 'span': (3, 6), 'p_lone': 0.5}


def prog_hook(prog, rng):
    names = list(prog.tasks)
    for n in rng.sample(names, min(len(names), rng.randint(1, 2))):
        prog.tasks[n].sequential = True
    # (separate stream: the draws above stay as they were)
    import random
    r2 = random.Random(repr(rng.getstate()[1][:4]))
    if r2.random() < 0.4:
        # listed through a family, inherited as first or second parent
        prog.seq_family = r2.choice(['first', 'second'])


class SeqLaunch(Monitor):
    def attach(self, h, res, case):
        self.res = res
        h.world.on_launch.append(self.on_launch)

    def on_launch(self, key, job):
        res = self.res
        prog, model = res.prog, res.model
        pstr, name, nn = key
        t = prog.tasks.get(name)
        if t is None or not t.sequential:
            return
        p = prog.ppoint(pstr)
        now = CLOCK.t
        prev = [q for q in model._valid[name] if model.start <= q < p]
        others = [k for k, j in res.world.jobs.items()
                  if k[1] == name and k[0] != pstr and j.active(now)]
        if others:
            res.violate('sequential_instances_overlap', {
                'launching': list(key), 'active': [list(k) for k in others]})
        if prev:
            q = max(prev)
            ok = any(k[1] == name and k[0] == prog.pstr(q)
                     and j.final_at(now) == 'succeeded'
                     for k, j in res.world.jobs.items())
            if not ok:
                res.violate('sequential_launched_before_previous_succeeded', {
                    'launching': list(key), 'previous': prog.iid(name, q)})


def end_check(res, mode):
    launched = launched_instances(res)
    for t in res.prog.tasks.values():
        if t.sequential and len([1 for (n, p) in launched if n == t.name]) > 1:
            res.sim.probe('sequential_multi_point')


def run(params):
    from .common import reload_monitors
    return generic_run(PID, params, knobs=KNOBS, policy='any',
                       plan_kw={'p_fail': 0.3}, prog_hook=prog_hook,
                       monitors=[SeqLaunch()] + reload_monitors(
                           params['seed'], 'c31', 4),
                       end_check=end_check,
                       probe_key='sequential_multi_point')
