"""C06 Held tasks never submit; holds persist and apply to future instances
(engine E1, exploration)."""
import random

from ..boot import CLOCK
from ..core import derive_seed
from ..e1 import Case, CommandDriver, Monitor, run_case, snapshot
from ..monitors import InvariantMonitor
from . import c19
from .common import (
    FinalDbMonitor, LaunchMonitor, RATES_NONE, RATES_SCHED, base_stats,
    launched_instances, sample_of, swarm_gkw, unexpected_stop, viol_dicts,
)

PID = 'C06'
ENGINE = 'E1'
LEVEL = 'exploration'
RULE = (
    'One case = generated workflow + a seeded history of hold / release / '
    'set-hold-point / release-hold-point commands on pooled and not yet '
    'spawned instances, injected at seeded command-queue interception points;'
    ' half of the runs are also stopped (clean or --now) and restarted in the '
    'middle. A model of the hold state (explicit set + hold point) is updated '
    'from the command history; every entry of a task into job preparation is '
    'checked against both the real held flag and the model; after each '
    'restart the held set and hold point loaded from the DB are compared '
    'with the model. Everything is released at the end so that the run can '
    'finish. Distinct = distinct (program, command history); non-trivial = '
    'some instance was held before it was spawned, or a held instance was in '
    'the pool when a restart happened.')
ASSUMPTIONS = ['commands take effect in the main-loop iteration in which '
               'they are injected (they are injected at the command-queue '
               'read)']
TIERS = {
    'quick': {'n': 700, 'budget_s': 420, 'chunk': 8},
    'thorough': {'n': 14000, 'budget_s': 3000, 'chunk': 20},
}
EXPECTED_PROBES = ['held_before_spawn', 'held_in_pool_at_restart',
                   'hold_point_set', 'held_task_blocked']
KNOBS = {'span': (3, 6), 'p_runahead': 0.3, 'n_tasks': (2, 5),
         'p_retries': 0.2}


def make_params(seed, tier):
    return {'seed': seed}


def gen_commands(rng, prog, model, n_iters):
    names = list(prog.tasks)
    valid = [(t, p) for t in names for p in sorted(model._valid[t])]
    cmds = []
    t_now = 0
    for _ in range(rng.randint(1, 5)):
        it = rng.randint(1, max(2, n_iters - 1))
        k = rng.choice(['hold', 'hold', 'release', 'set_hold_point',
                        'release_hold_point'])
        slot = rng.randint(0, 1)
        if k in ('hold', 'release'):
            ids = rng.sample(valid, min(len(valid), rng.randint(1, 3)))
            cmds.append({'iter': it, 'slot': slot, 'name': k,
                         'kwargs': {'tasks': [prog.iid(*i) for i in ids]},
                         'ids': ids})
        elif k == 'set_hold_point':
            p = rng.randint(prog.icp, prog.fcp)
            cmds.append({'iter': it, 'slot': slot, 'name': k,
                         'kwargs': {'point': prog.pstr(p)}, 'point': p})
        else:
            cmds.append({'iter': it, 'slot': slot, 'name': k, 'kwargs': {}})
    cmds.sort(key=lambda c: (c['iter'], c['slot']))
    return cmds


class HoldModel(Monitor):
    """Hold state from the command history + checks at preparation entry."""

    def __init__(self, cmds, strict=True):
        self.cmds = cmds
        self.held = set()
        self.overrides = set()
        self.hold_point = None
        self.strict = strict
        self.applied = 0

    def attach(self, h, res, case):
        self.res = res
        self.h = h
        h.iter_hooks.append(self.sync)
        h.start_hooks.append(self.on_start)
        self.seen_done = 0
        self.prep_seen = set()
        self.restarts = 0
        self.was_pooled = set()
        self.seen_pooled = {}

    def model_held(self, t, p):
        # an explicit release of a held instance overrides the hold point
        # for that instance (until the hold point is set again)
        return (t, p) in self.held or (
            self.hold_point is not None and p > self.hold_point
            and (t, p) not in self.overrides)

    def apply_done(self):
        done = getattr(self.res, 'commands_done', [])
        while self.seen_done < len(done):
            _, inc, it, name, kw, r, ids = done[self.seen_done]
            if isinstance(r, (list, tuple)) and r and r[0] is False:
                self.seen_done += 1
                continue    # rejected by validation
            # only commands the scheduler has actually actioned count (one
            # queued while the scheduler shuts down is never run)
            tag = f'ID={r[1]}'
            recs = self.h.log.records
            self.log_pos = getattr(self, 'log_pos', 0)
            actioned = False
            for j in range(self.log_pos, len(recs)):
                m = recs[j][1]
                if tag in m and 'actioned' in m:
                    actioned = True
                    self.log_pos = j
                    break
            if not actioned:
                return
            self.seen_done += 1
            prog = self.res.prog
            if name == 'hold':
                for s in kw['tasks']:
                    c, n = s.split('/')
                    k = (n, prog.ppoint(c))
                    self.held.add(k)
                    self.seen_pooled[k] = s in ids
                    if s not in ids:
                        self.res.sim.probe('held_before_spawn')
            elif name == 'release':
                for s in kw['tasks']:
                    c, n = s.split('/')
                    k = (n, prog.ppoint(c))
                    spawn_held = (s in ids and self.hold_point is not None
                                  and k[1] > self.hold_point)
                    if k in self.held or spawn_held:
                        self.held.discard(k)
                        if s in ids:
                            # a pooled instance stays released; for one not
                            # yet spawned only the explicit entry goes and
                            # the hold point still applies when it spawns
                            self.overrides.add(k)
            elif name == 'set_hold_point':
                self.hold_point = prog.ppoint(kw['point'])
                self.overrides.clear()
                self.res.sim.probe('hold_point_set')
                # everything pooled beyond the point becomes explicitly held
                for ident in ids:
                    c, n = ident.split('/')
                    p = prog.ppoint(c)
                    if p > self.hold_point and n in prog.tasks:
                        self.held.add((n, p))
                        self.seen_pooled[(n, p)] = True
                # (pool as of the command: later arrivals are spawn-time holds)
                self.was_pooled = {
                    (i.split('/')[1], prog.ppoint(i.split('/')[0]))
                    for i in ids}
            elif name == 'release_hold_point':
                self.held.clear()
                self.overrides.clear()
                self.hold_point = None

    def sync(self, h):
        """End of iteration: bring the model up to date, then check the
        tasks that are in preparation / active."""
        self.apply_done()
        schd = h.schd
        prog = self.res.prog
        # a held task that leaves the pool (finished) loses its hold entry
        now_pooled = {(i.tdef.name, prog.ppoint(str(i.point)))
                      for i in schd.pool.get_tasks()
                      if i.tdef.name in prog.tasks}
        # an instance spawned beyond the hold point is held at spawn and
        # joins the explicit held set
        if self.hold_point is not None:
            for k in now_pooled:
                if (k[1] > self.hold_point and k not in self.overrides
                        and k not in self.was_pooled):
                    self.held.add(k)
        for k in list(self.held):
            if k in now_pooled:
                self.seen_pooled[k] = True
            elif self.seen_pooled.get(k):
                # it was in the pool while held and has now left it
                self.held.discard(k)
                self.seen_pooled.pop(k, None)
        self.was_pooled = now_pooled
        for i in schd.pool.get_tasks():
            if i.tdef.name not in prog.tasks:
                continue
            key = (i.identity, i.submit_num)
            t, p = i.tdef.name, prog.ppoint(str(i.point))
            if i.state.status == 'waiting' and self.model_held(t, p):
                self.res.sim.probe('held_task_blocked')
                if not i.state.is_held and self.strict:
                    self.res.violate('pooled_task_not_held_though_hold_in_force', {
                        'task': i.identity, 'explicit': (t, p) in self.held,
                        'hold_point': self.hold_point})
            if i.state.status in ('preparing', 'submitted', 'running'):
                if key in self.prep_seen:
                    continue
                self.prep_seen.add(key)
                if (self.model_held(t, p) and self.strict
                        and (t, p) in self.held_before_active.get(key, {0})):
                    pass

    held_before_active = {}

    def on_start(self, h):
        if h.incarnation == 0:
            return
        self.restarts += 1
        self.apply_done()     # commands actioned during the shutdown wait
        snap = snapshot(h)
        prog = self.res.prog
        real = set()
        for s in snap['tasks_to_hold']:
            c, n = s.split('/')
            real.add((n, prog.ppoint(c)))
        hp = prog.ppoint(snap['hold_point']) if snap['hold_point'] else None
        # instances spawned (and held at spawn) in the interrupted final
        # iteration, after the last end-of-iteration sync
        if self.hold_point is not None:
            for ident in snap['tasks']:
                c, n = ident.split('/')
                k = (n, prog.ppoint(c))
                if (k[1] > self.hold_point and k not in self.overrides
                        and k not in self.was_pooled):
                    self.held.add(k)
        import os
        if os.environ.get('C06_DEBUG'):
            print('ON_START held', sorted(self.held), 'hp', self.hold_point,
                  'over', sorted(self.overrides), 'was_pooled',
                  sorted(self.was_pooled), 'snap', sorted(snap['tasks']),
                  'real', sorted(real))
        if self.strict:
            if hp != self.hold_point:
                self.res.violate('hold_point_not_restored', {
                    'model': self.hold_point, 'restored': hp})
            # compare the *effective* hold state of every valid instance
            # (an entry beyond the hold point is redundant either way)
            model = self.res.model
            bad = {}
            for t in prog.tasks:
                for p in sorted(model._valid[t]):
                    ident = prog.iid(t, p)
                    want = self.model_held(t, p)
                    if ident in snap['tasks']:
                        got = snap['tasks'][ident]['held']
                        if snap['tasks'][ident]['status'] != 'waiting':
                            continue
                    else:
                        got = (t, p) in real or (hp is not None and p > hp)
                    if got != want:
                        bad[ident] = {'model_held': want, 'restored_held': got,
                                      'released_beyond_hold_point':
                                      (t, p) in self.overrides}
            if bad:
                known = all(v['released_beyond_hold_point'] and
                            v['restored_held'] for v in bad.values())
                self.res.violate('held_set_not_restored', {
                    'instances': bad, 'model_set': sorted(self.held),
                    'restored_set': sorted(real), 'hold_point': hp,
                    'predicates': ['explicit_release_beyond_hold_point_lost_on_restart']
                    if known else []})
        pooled_held = [i for i, d in snap['tasks'].items() if d['held']]
        if pooled_held:
            self.res.sim.probe('held_in_pool_at_restart')


class PrepGate(Monitor):
    """At the very moment a task enters job preparation the hold model (as of
    the commands already processed) must not say it is held."""

    def __init__(self, hm):
        self.hm = hm

    def attach(self, h, res, case):
        self.res = res
        from .. import monitors
        self.h = h
        res._prep_gate = self
        orig = monitors.InvariantMonitor.on_prep

        def on_prep(mon, tjm, itasks, _orig=orig, gate=self):
            gate.check(itasks)
            return _orig(mon, tjm, itasks)
        self._restore = (monitors.InvariantMonitor, 'on_prep', orig)
        monitors.InvariantMonitor.on_prep = on_prep

    def finish(self, h, res, case):
        cls, name, orig = self._restore
        setattr(cls, name, orig)

    def check(self, itasks):
        hm = self.hm
        hm.apply_done()
        prog = self.res.prog
        for i in itasks:
            if i.tdef.name not in prog.tasks or i.state.status == 'preparing':
                continue
            t, p = i.tdef.name, prog.ppoint(str(i.point))
            if hm.model_held(t, p) and not i.is_manual_submit and hm.strict:
                self.res.violate('task_held_by_command_history_entered_preparation', {
                    'task': i.identity, 'explicitly_held': (t, p) in hm.held,
                    'hold_point': hm.hold_point,
                    'real_is_held': bool(i.state.is_held)})
            if (t, p) in hm.held and not hm.was_pooled_at_hold.get((t, p), True):
                self.res.sim.probe('held_before_spawn')


def run(params):
    seed = params['seed']
    rng = random.Random(derive_seed(seed, 'c06'))
    from cylc.flow.workflow_status import StopMode
    gkw = swarm_gkw(rng)
    c0 = Case(seed, knobs=KNOBS, rates=RATES_NONE, policy='complete', gkw=gkw)
    c0.build()
    from ..refmodel import Model
    model = Model(c0.prog, None)
    cmds = params.get('cmds') or gen_commands(rng, c0.prog, model, 25)
    mode = ['none', 'stop', 'crash'][seed % 3]
    life_cmds = [dict(c) for c in cmds]
    # release everything late so that the run can finish
    life_cmds.append({'at_time': 90.0, 'name': 'release_hold_point',
                      'kwargs': {}})
    # (again, in case the first one was lost in a crash)
    life_cmds.append({'at_time': 200.0, 'name': 'release_hold_point',
                      'kwargs': {}})
    stops = []
    if mode == 'stop':
        stops = [{'incarnation': 0, 'iter': rng.randint(3, 30),
                  'slot': rng.randint(0, 1), 'name': 'stop',
                  'kwargs': {'mode': rng.choice([StopMode.REQUEST_CLEAN,
                                                 StopMode.REQUEST_NOW])},
                  'downtime': rng.choice([0.0, 5.0])}]
    for c in life_cmds:
        if 'iter' in c:
            c.setdefault('incarnation', 0)
    hm = HoldModel(cmds, strict=(mode != 'crash'))
    hm.was_pooled_at_hold = {}
    gate = PrepGate(hm)
    sr = c19.StopRestart(stops)

    def lifecycle(h, res):
        if mode == 'crash':
            h.world.crash_at = rng.randint(80, 500)
            info = h.run_once()
            res.stops.append(info.reason)
            h.world.crash_at = None
            if info.reason == 'crash':
                h.world.downtime(2.0)
                info = h.run_once()
                res.stops.append(info.reason)
        else:
            sr.lifecycle(h, res)

    # record whether a held id was pooled when the hold command was issued
    class Pooled(Monitor):
        def attach(self, h, res, case):
            h.intercept_hooks.append(self.icp)
            self.h = h
            self.n = 0

        def icp(self, h, label):
            done = getattr(res_holder.get('res'), 'commands_done', None)
            if done is None or len(done) == self.n or h.schd is None:
                return
            for rec in done[self.n:]:
                if rec[3] == 'hold':
                    ids = rec[6]
                    for s in rec[4]['tasks']:
                        c, n = s.split('/')
                        hm.was_pooled_at_hold[(n, c0.prog.ppoint(c))] = s in ids
            self.n = len(done)
    res_holder = {}
    pooled = Pooled()

    def setup(h, res, case):
        res_holder['res'] = res
    res = run_case(c0, monitors=[
        LaunchMonitor(), gate, InvariantMonitor(commands=True),
        CommandDriver(life_cmds + [dict(s) for s in stops]), hm, sr, pooled,
        FinalDbMonitor()], lifecycle=lifecycle, setup=setup)
    if res.error:
        return {'error': res.error, 'violations': [], 'stats': {}}
    if unexpected_stop(res.stops[-1]):
        res.violate('scheduler_aborted_unexpectedly', {
            'stops': res.stops, 'log_tail': res.log_tail[-5:],
            'property': 'C03'})
    nontriv = None
    if res.sim.probes.get('held_before_spawn') or res.sim.probes.get(
            'held_in_pool_at_restart'):
        nontriv = [res.prog.render(), [(c['iter'], c['name'], str(c['kwargs']))
                                       for c in cmds], mode]
    return {'violations': viol_dicts(res, PID, {}),
            'stats': base_stats(res, nontriv),
            'sample': sample_of(res, {
                'commands': [(c['iter'], c['slot'], c['name'], c['kwargs'])
                             for c in cmds], 'mode': mode,
                'stops': res.stops})}
