"""C09 Lifecycle and monotone outputs (engine E1, exploration). See DESIGN.md section 7."""
from .common import generic_run, FinalDbMonitor, launched_instances

PID = 'C09'
ENGINE = 'E1'
LEVEL = 'exploration'
RULE = ('One case = generated workflow with retries + failing/vanishing jobs + schedules where messages of one job may overtake each other, be duplicated, delayed past the next submission, dropped and recovered by (possibly stale) polls; a third of the cases reload the unchanged definition mid-run. Every status change and every output completion of every task proxy is checked. Distinct = distinct (program, schedule digest); non-trivial = at least one retry or out-of-order delivery happened.')
ASSUMPTIONS = [
    'jobs, polls, submissions, message transport and the clock are simulated',
    'reference model / invariants cover the generated workflow sub-language',
]
TIERS = {
    'quick': {'n': 1000, 'budget_s': 420, 'chunk': 10},
    'thorough': {'n': 20000, 'budget_s': 3000, 'chunk': 25},
}
EXPECTED_PROBES = ['backward_message_poll_requested', 'stale_submit_message', 'retry_transition']


def make_params(seed, tier):
    return {'seed': seed}

KNOBS = {'p_retries': 0.6, 'p_submit_retries': 0.3, 'p_custom': 0.5}
RATES = {'msg_delay': 0.35, 'msg_dup': 0.15, 'msg_reorder': 0.4,
         'msg_drop': 0.1, 'poll_fail': 0.05}


def run(params):
    p = dict(params)
    if params['seed'] % 2:
        p['rates'] = RATES
    mons = []
    if params['seed'] % 3 == 0:
        # a third of the cases: a reload of the unchanged definition in the
        # middle of the run (every proxy is replaced by a successor, which
        # must carry status and outputs over)
        import random
        from ..core import derive_seed
        from ..e1 import CommandDriver
        r_ = random.Random(derive_seed(params['seed'], 'c09-reload'))
        mons = [CommandDriver([{'iter': r_.randint(2, 30), 'slot': 0,
                                'name': 'reload_workflow', 'kwargs': {}}])]
    r = generic_run(PID, p, knobs=KNOBS, policy='any', monitors=mons,
                    plan_kw={'p_fail': 0.5, 'p_vanish': 0.15},
                    world_cfg={'intra_job_reorder': bool(params['seed'] % 2)})
    st = r.get('stats') or {}
    f = st.get('faults', {})
    if not (f.get('msg_intra_job_reorder') or f.get('msg_dup')
            or st.get('probes', {}).get('stale_submit_message')
            or f.get('submit_fail')):
        st['nontrivial'] = []
    return r
