"""C11 Completion and retention (engine E1, exploration). See DESIGN.md section 7."""
from .common import generic_run, FinalDbMonitor, launched_instances

PID = 'C11'
ENGINE = 'E1'
LEVEL = 'exploration'
RULE = ('One case = generated workflow with required/optional standard and custom outputs + an outcome plan covering output subsets (user completion expressions `succeeded and (x or y)` / `succeeded or (failed and x)` on half of the tasks whose graph optionality allows them, missing required outputs, failures with and without optional success, partial outputs of failed tries). Each removal and each retained finished task is compared with the completion rule written from the property text. A share of the cases reloads the unchanged definition once in mid-run. Distinct = distinct (program, outcome plan digest); non-trivial = at least one finished task was retained incomplete and one removed complete.')
ASSUMPTIONS = [
    'jobs, polls, submissions, message transport and the clock are simulated',
    'reference model / invariants cover the generated workflow sub-language',
]
TIERS = {
    'quick': {'n': 1000, 'budget_s': 420, 'chunk': 10},
    'thorough': {'n': 20000, 'budget_s': 3000, 'chunk': 25},
}
EXPECTED_PROBES = ['removed_complete', 'incomplete_task_retained',
                   'user_completion_expression']


def make_params(seed, tier):
    return {'seed': seed}

KNOBS = {'p_custom': 0.7, 'p_optional': 0.4, 'p_fail_trigger': 0.25}


_LAST = {'completion': False}


def prog_hook(prog, rng):
    """Give some tasks a user completion expression (of a form that is
    consistent with the optionality the graph declares)."""
    from ..gen import atoms
    ref = {}
    _LAST['completion'] = False
    for s in prog.sections:
        for e, _tg in s.lines:
            for a in atoms(e):
                ref.setdefault(a.task, set()).add(a.output)
    for name, t in prog.tasks.items():
        if rng.random() > 0.5:
            continue
        opt_c = [c for c in t.customs if c in ref.get(name, ()) and t.opt.get(c)]
        succ_opt = bool(t.opt.get('succeeded')) or 'failed' in ref.get(name, ())
        if any(o in ref.get(name, ()) for o in ('submit-failed', 'expired')):
            continue
        if not succ_opt and len(opt_c) >= 2:
            a, b = opt_c[:2]
            t.completion = f'succeeded and ({a} or {b})'
            _LAST['completion'] = True
        elif succ_opt and opt_c:
            t.completion = f'succeeded or (failed and {opt_c[0]})'
            _LAST['completion'] = True


def run(params):
    from .common import reload_monitors
    r = generic_run(PID, params, knobs=KNOBS, policy='any',
                    prog_hook=prog_hook,
                    monitors=reload_monitors(params['seed'], 'c11', every=4),
                    plan_kw={'p_fail': 0.4, 'p_optout': 0.5})
    st = r.get('stats') or {}
    pr = st.get('probes', {})
    if _LAST['completion']:
        pr['user_completion_expression'] = pr.get('user_completion_expression', 0) + 1
        st['probes'] = pr
    if not (pr.get('removed_complete') and pr.get('incomplete_task_retained')):
        st['nontrivial'] = []
    return r
