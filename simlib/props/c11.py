"""C11 Completion and retention (engine E1, exploration). See DESIGN.md section 7."""
from .common import generic_run, FinalDbMonitor, launched_instances

PID = 'C11'
ENGINE = 'E1'
LEVEL = 'exploration'
RULE = ('One case = generated workflow with required/optional standard and custom outputs + an outcome plan covering output subsets (missing required outputs, failures with and without optional success, partial outputs of failed tries). Each removal and each retained finished task is compared with the completion rule written from the property text. Distinct = distinct (program, outcome plan digest); non-trivial = at least one finished task was retained incomplete and one removed complete.')
ASSUMPTIONS = [
    'jobs, polls, submissions, message transport and the clock are simulated',
    'reference model / invariants cover the generated workflow sub-language',
]
TIERS = {
    'quick': {'n': 1000, 'budget_s': 420, 'chunk': 10},
    'thorough': {'n': 20000, 'budget_s': 3000, 'chunk': 25},
}
EXPECTED_PROBES = ['removed_complete', 'incomplete_task_retained']


def make_params(seed, tier):
    return {'seed': seed}

KNOBS = {'p_custom': 0.7, 'p_optional': 0.4, 'p_fail_trigger': 0.25}


def run(params):
    r = generic_run(PID, params, knobs=KNOBS, policy='any',
                    plan_kw={'p_fail': 0.4, 'p_optout': 0.5})
    st = r.get('stats') or {}
    pr = st.get('probes', {})
    if not (pr.get('removed_complete') and pr.get('incomplete_task_retained')):
        st['nontrivial'] = []
    return r
