"""C48 Installed run directories are numbered and runN tracks the latest
(engine E5 installsim: real install/reinstall/clean with real rsync on a
private ~/cylc-run, injected filesystem / rsync faults and aborts)."""
import hashlib
import os
import random
import shutil
from pathlib import Path

from .. import boot
from ..core import SimCrash, derive_seed, jdump, write_global_config
from ..harness import global_text

PID = 'C48'
ENGINE = 'E5'
LEVEL = 'exploration'
LEVEL_TEXT = (
    'Seeded histories of install (numbered, --run-name, --no-run-name), '
    'reinstall, clean (whole run or --rm DIR) and manual removal of runN against the real '
    'install/clean code and the real rsync binary, with injected rsync '
    'failures, OSErrors on mkdir/symlink and aborts between two file-system '
    'effects; invariants over the directory tree after every operation.')
LEVEL_NOTE = (
    'Trusted: tmpfs behaves like the real cylc-run file system; faults are '
    'injected at the Popen / Path.mkdir / Path.symlink_to seams of '
    'cylc.flow.install only.')
RULE = (
    'One case = one history of 3-12 operations on one workflow name (source '
    'directory modified between operations). After each operation: content '
    'fingerprints of all run directories that existed before an install are '
    'unchanged; a new numbered run has a number greater than every existing '
    'runK and was not a number used before; after a successful numbered '
    'install runN points at the new run, and whenever runN exists it points '
    'at an existing run and at the highest-numbered one; a targeted clean '
    '(--rm DIR) neither removes the run nor changes runN. Distinct = distinct '
    'operation history; non-trivial = at least 3 numbered installs succeeded '
    'and one fault or clean happened in between.')
ASSUMPTIONS = ['single user, no concurrent installs']
TIERS = {
    'quick': {'n': 240, 'budget_s': 420, 'chunk': 4},
    'thorough': {'n': 5000, 'budget_s': 3000, 'chunk': 10},
}
EXPECTED_PROBES = ['numbered_install_ok', 'rsync_failed', 'oserror_injected',
                   'aborted_mid_install', 'clean_latest', 'clean_middle',
                   'runN_removed_by_hand', 'reinstall_ok', 'targeted_clean']


def make_params(seed, tier):
    return {'seed': seed}


def gen_ops(rng):
    ops = []
    style = rng.choice(['numbered', 'numbered', 'numbered', 'mixed'])
    n_ops = rng.randint(3, 12)
    r2 = random.Random(repr(rng.getstate()[1][:4]))    # (separate stream)
    if r2.random() < 0.15:
        # run numbers with two digits: 9-12 plain installs first, and the
        # latest run cleaned (runN gone: the next number is worked out from
        # the directory names)
        for _ in range(r2.randint(9, 12)):
            ops.append(['install', None, r2.randint(0, 99)])
        ops.append(['clean', 'latest', r2.randint(0, 99)])
        if r2.random() < 0.5:
            ops.append(['clean', 'random', r2.randint(0, 99)])
        ops.append(['install', None, r2.randint(0, 99)])
        n_ops = r2.randint(1, 5)
    for _ in range(n_ops):
        r = rng.random()
        if r < 0.5:
            kind = 'install'
            if style == 'mixed' and rng.random() < 0.4:
                kind = rng.choice(['install_named', 'install_norun'])
            fault = None
            f = rng.random()
            if f < 0.12:
                fault = ['rsync_fail']
            elif f < 0.22:
                fault = ['oserror', rng.choice(['mkdir', 'symlink']),
                         rng.randint(1, 3)]
            elif f < 0.34:
                fault = ['abort', rng.randint(1, 8)]
            ops.append([kind, fault, rng.randint(0, 99)])
        elif r < 0.58:
            ops.append(['clean', rng.choice(['latest', 'oldest', 'random']),
                        rng.randint(0, 99)])
        elif r < 0.65:
            # targeted clean (cylc clean --rm DIR): the run stays installed
            ops.append(['clean_rm', rng.choice(['latest', 'latest', 'random']),
                        rng.randint(0, 99), rng.choice(['work', 'share', 'log'])])
        elif r < 0.78:
            ops.append(['reinstall', rng.choice(['latest', 'random']),
                        rng.randint(0, 99)])
        elif r < 0.88:
            ops.append(['rm_runN'])
        else:
            ops.append(['touch_source', rng.randint(0, 99)])
    return ops


def fingerprint(path):
    """Content fingerprint of a run directory (files + symlinks), ignoring
    install logs."""
    h = hashlib.sha256()
    for root, dirs, files in os.walk(path):
        dirs.sort()
        rel = os.path.relpath(root, path)
        if rel.startswith('log'):
            continue
        for f in sorted(files):
            p = os.path.join(root, f)
            h.update(os.path.join(rel, f).encode())
            if os.path.islink(p):
                h.update(os.readlink(p).encode())
            else:
                with open(p, 'rb') as fh:
                    h.update(fh.read())
    return h.hexdigest()[:16]


class Seam:
    """Fault seams on cylc.flow.install: Popen, Path.mkdir, symlink_to."""

    def __init__(self):
        self.effects = 0
        self.abort_at = None
        self.rsync_fail = False
        self.oserr = None      # (kind, nth)
        self.count = {'mkdir': 0, 'symlink': 0}
        self.fired = None

    def effect(self, what):
        self.effects += 1
        if self.abort_at is not None and self.effects == self.abort_at:
            self.fired = 'abort'
            raise SimCrash(f'abort at effect {self.effects} ({what})')


def run(params):
    seed = params['seed']
    rng = random.Random(derive_seed(seed, 'c48'))
    ops = params.get('ops') or gen_ops(rng)
    import logging
    from cylc.flow import LOG
    for hdl in list(LOG.handlers):
        LOG.removeHandler(hdl)
    LOG.addHandler(logging.NullHandler())
    import cylc.flow.install as inst
    from cylc.flow import clean as cleanmod
    from cylc.flow.exceptions import CylcError
    from .. import harness
    write_global_config(global_text())
    harness._GLOBAL_CACHE[0] = None
    home = boot.HOME
    base = os.path.join(home, 'cylc-run', f'inst{os.getpid()}')
    src = os.path.join(boot.SCRATCH, f'src-{os.getpid()}', 'wf')
    shutil.rmtree(base, ignore_errors=True)
    shutil.rmtree(os.path.dirname(src), ignore_errors=True)
    os.makedirs(src)
    name = os.path.basename(base)
    with open(os.path.join(src, 'flow.cylc'), 'w') as fh:
        fh.write('[scheduling]\n  [[graph]]\n    R1 = a\n[runtime]\n  [[a]]\n')
    with open(os.path.join(src, 'data.txt'), 'w') as fh:
        fh.write('v0\n')
    viol = []
    probes = {}
    seam = Seam()

    def probe(k):
        probes[k] = probes.get(k, 0) + 1

    def V(rule, detail, preds=()):
        viol.append({'rule': rule, 'detail': detail, 'property': PID,
                     'predicates': list(preds), 'choices': None,
                     'trace': [jdump(o) for o in ops],
                     'replay_params': {'seed': seed, 'ops': ops}})
    # seams ------------------------------------------------------------
    real_popen = inst.Popen
    real_mkdir = Path.mkdir
    real_symlink = Path.symlink_to

    class FaultyPopen:
        def __init__(self, cmd, *a, **k):
            seam.effect('rsync')
            self.fail = seam.rsync_fail and cmd and 'rsync' in str(cmd[0])
            if self.fail:
                seam.fired = 'rsync_fail'
                self.returncode = 23
            else:
                self.p = real_popen(cmd, *a, **k)

        def communicate(self, *a, **k):
            if self.fail:
                return ('', 'rsync: simulated failure')
            out = self.p.communicate(*a, **k)
            self.returncode = self.p.returncode
            return out

    def mkdir(self, *a, **k):
        if str(self).startswith(base):
            seam.effect('mkdir')
            seam.count['mkdir'] += 1
            if seam.oserr and seam.oserr[0] == 'mkdir' and (
                    seam.count['mkdir'] == seam.oserr[1]):
                seam.fired = 'oserror'
                raise OSError(28, 'No space left on device', str(self))
        return real_mkdir(self, *a, **k)

    def symlink_to(self, *a, **k):
        if str(self).startswith(base):
            seam.effect('symlink')
            seam.count['symlink'] += 1
            if seam.oserr and seam.oserr[0] == 'symlink' and (
                    seam.count['symlink'] == seam.oserr[1]):
                seam.fired = 'oserror'
                raise OSError(28, 'No space left on device', str(self))
        return real_symlink(self, *a, **k)

    def runs():
        out = {}
        if os.path.isdir(base):
            for e in sorted(os.listdir(base)):
                p = os.path.join(base, e)
                if e.startswith('run') and e[3:].isdigit() and os.path.isdir(p) \
                        and not os.path.islink(p):
                    out[int(e[3:])] = p
        return out

    def runN():
        p = os.path.join(base, 'runN')
        return os.readlink(p) if os.path.islink(p) else None

    used_numbers = set()
    cleaned_numbers = set()
    ok_installs = 0
    disturbed = False
    inst.Popen = FaultyPopen
    Path.mkdir = mkdir
    Path.symlink_to = symlink_to
    err = None
    try:
        for i, op in enumerate(ops):
            before = {n: fingerprint(p) for n, p in runs().items()}
            named_before = {}
            if os.path.isdir(base):
                for e in os.listdir(base):
                    p = os.path.join(base, e)
                    if os.path.isdir(p) and not os.path.islink(p) and (
                            not e.startswith('run') and e != '_cylc-install'):
                        named_before[e] = fingerprint(p)
            seam.effects = 0
            seam.abort_at = None
            seam.rsync_fail = False
            seam.oserr = None
            seam.count = {'mkdir': 0, 'symlink': 0}
            seam.fired = None
            kind = op[0]
            outcome = None
            if kind in ('install', 'install_named', 'install_norun'):
                fault = op[1]
                if fault:
                    if fault[0] == 'rsync_fail':
                        seam.rsync_fail = True
                    elif fault[0] == 'oserror':
                        seam.oserr = (fault[1], fault[2])
                    elif fault[0] == 'abort':
                        seam.abort_at = fault[1]
                kw = {}
                if kind == 'install_named':
                    kw['run_name'] = f'nm{op[2] % 3}'
                elif kind == 'install_norun':
                    kw['no_run_name'] = True
                try:
                    _, rundir, _, named = inst.install_workflow(
                        Path(src), workflow_name=name, **kw)
                    outcome = ('ok', str(rundir))
                except SimCrash:
                    outcome = ('abort', None)
                    probe('aborted_mid_install')
                    disturbed = True
                except (CylcError, OSError) as exc:
                    outcome = ('error', f'{type(exc).__name__}: {exc}'[:200])
                if seam.fired == 'rsync_fail':
                    probe('rsync_failed')
                    disturbed = True
                if seam.fired == 'oserror':
                    probe('oserror_injected')
                    disturbed = True
                # close any log handlers left open by an aborted install
                for lg_name in ('cylc-install', 'cylc-reinstall'):
                    lg = logging.getLogger(lg_name)
                    for hdl in list(lg.handlers):
                        try:
                            hdl.close()
                        except Exception:
                            pass
                        lg.removeHandler(hdl)
                after = runs()
                # 1. existing runs untouched
                for n, fp in before.items():
                    if n in after and fingerprint(after[n]) != fp:
                        V('install_changed_existing_run', {
                            'op_index': i, 'op': op, 'run': f'run{n}'})
                for e, fp in named_before.items():
                    p = os.path.join(base, e)
                    if os.path.isdir(p) and fingerprint(p) != fp:
                        V('install_changed_existing_run', {
                            'op_index': i, 'op': op, 'run': e})
                if (kind == 'install' and not fault and outcome[0] == 'error'
                        and not any(o[0] in ('install_named', 'install_norun')
                                    for o in ops)):
                    V('numbered_install_failed_without_fault', {
                        'op_index': i, 'error': outcome[1],
                        'runs': sorted(before), 'runN': runN()})
                new = sorted(set(after) - set(before))
                if kind == 'install' and outcome[0] == 'ok':
                    ok_installs += 1
                    probe('numbered_install_ok')
                    if len(new) != 1:
                        V('numbered_install_did_not_create_one_run', {
                            'op_index': i, 'new': new,
                            'before': sorted(before), 'after': sorted(after)})
                    else:
                        n = new[0]
                        if before and n <= max(before):
                            V('new_run_number_not_greater_than_existing', {
                                'op_index': i, 'new': n,
                                'existing': sorted(before)})
                        if n in used_numbers:
                            known = n in cleaned_numbers
                            V('run_number_reused', {
                                'op_index': i, 'number': n,
                                'used_before': sorted(used_numbers)},
                              ['number_of_cleaned_run_reused'] if known else [])
                        used_numbers.add(n)
                        if runN() != f'run{n}':
                            swallowed = (seam.fired == 'oserror' and seam.oserr
                                         and seam.oserr[0] == 'symlink')
                            V('runN_not_pointing_at_new_run', {
                                'op_index': i, 'runN': runN(), 'new': f'run{n}',
                                'fault': op[1]},
                              ['oserror_on_runN_symlink_swallowed']
                              if swallowed else [])
                        if not os.path.exists(os.path.join(after[n], 'flow.cylc')):
                            if not seam.rsync_fail:
                                V('installed_run_incomplete', {'run': f'run{n}'})
                for n in new:
                    used_numbers.add(n)
            elif kind == 'clean':
                rs = runs()
                if rs:
                    ks = sorted(rs)
                    pick = {'latest': ks[-1], 'oldest': ks[0],
                            'random': ks[op[2] % len(ks)]}[op[1]]
                    probe('clean_latest' if pick == ks[-1] else 'clean_middle')
                    disturbed = True
                    try:
                        cleanmod.clean(f'{name}/run{pick}', Path(rs[pick]))
                        cleaned_numbers.add(pick)
                    except (CylcError, OSError) as exc:
                        outcome = ('error', str(exc)[:200])
                    after = runs()
                    for n, fp in before.items():
                        if n != pick and (n not in after or
                                          fingerprint(after[n]) != fp):
                            V('clean_touched_another_run', {
                                'op_index': i, 'cleaned': pick, 'run': n})
            elif kind == 'clean_rm':
                rs = runs()
                if rs:
                    ks = sorted(rs)
                    pick = ks[-1] if op[1] == 'latest' else ks[op[2] % len(ks)]
                    os.makedirs(os.path.join(rs[pick], op[3], 'x'), exist_ok=True)
                    rn0 = runN()
                    probe('targeted_clean')
                    try:
                        cleanmod.clean(f'{name}/run{pick}', Path(rs[pick]),
                                       {op[3]})
                    except (CylcError, OSError) as exc:
                        outcome = ('error', str(exc)[:200])
                    after = runs()
                    if pick not in after:
                        V('targeted_clean_removed_the_run', {
                            'op_index': i, 'run': pick, 'dir': op[3]})
                    elif runN() != rn0:
                        V('targeted_clean_changed_runN', {
                            'op_index': i, 'run': pick, 'dir': op[3],
                            'runN_before': rn0, 'runN_after': runN(),
                            'runs': sorted(after)})
                    for n, fp in before.items():
                        if n != pick and (n not in after or
                                          fingerprint(after[n]) != fp):
                            V('clean_touched_another_run', {
                                'op_index': i, 'cleaned': pick, 'run': n})
            elif kind == 'reinstall':
                rs = runs()
                if rs:
                    ks = sorted(rs)
                    pick = ks[-1] if op[1] == 'latest' else ks[op[2] % len(ks)]
                    try:
                        import contextlib
                        import io
                        with contextlib.redirect_stdout(io.StringIO()):
                            inst.reinstall_workflow(
                                Path(src), f'{name}/run{pick}', Path(rs[pick]))
                        probe('reinstall_ok')
                    except (CylcError, OSError, SimCrash) as exc:
                        outcome = ('error', str(exc)[:200])
                    after = runs()
                    for n, fp in before.items():
                        if n != pick and (n not in after or
                                          fingerprint(after[n]) != fp):
                            V('reinstall_touched_another_run', {
                                'op_index': i, 'target': pick, 'run': n})
            elif kind == 'rm_runN':
                p = os.path.join(base, 'runN')
                if os.path.islink(p):
                    os.unlink(p)
                    probe('runN_removed_by_hand')
                    disturbed = True
            elif kind == 'touch_source':
                with open(os.path.join(src, 'data.txt'), 'a') as fh:
                    fh.write(f'v{op[1]}\n')
            # invariant on runN whenever it exists
            rn = runN()
            rs = runs()
            if rn is not None:
                if not os.path.isdir(os.path.join(base, rn)):
                    V('runN_dangling', {'op_index': i, 'op': op, 'runN': rn})
                elif rs and rn != f'run{max(rs)}':
                    aborted = kind.startswith('install') and outcome and (
                        outcome[0] != 'ok')
                    V('runN_not_latest', {
                        'op_index': i, 'op': op, 'runN': rn,
                        'runs': sorted(rs)},
                      ['install_interrupted_before_relink'] if aborted else [])
    except Exception:
        import traceback
        err = 'harness exception: ' + traceback.format_exc()[-1500:]
    finally:
        inst.Popen = real_popen
        Path.mkdir = real_mkdir
        Path.symlink_to = real_symlink
        shutil.rmtree(base, ignore_errors=True)
        shutil.rmtree(os.path.dirname(src), ignore_errors=True)
    if err:
        return {'error': err, 'violations': [], 'stats': {}}
    nontriv = []
    if ok_installs >= 3 and disturbed:
        nontriv = [hashlib.sha256(jdump(ops).encode()).hexdigest()[:16]]
    return {
        'violations': viol,
        'stats': {'faults': {}, 'probes': probes, 'sim_seconds': 0.0,
                  'iterations': len(ops), 'digests': [],
                  'nontrivial': nontriv, 'pool_states': []},
        'sample': {'operations': ops, 'numbers_used': sorted(used_numbers),
                   'numbers_cleaned': sorted(cleaned_numbers)},
    }
