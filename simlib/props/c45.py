"""C45 Absolute-trigger outputs satisfy every dependent instance (engine E1, exploration). See DESIGN.md section 7."""
from .common import generic_run, FinalDbMonitor, launched_instances

PID = 'C45'
ENGINE = 'E1'
LEVEL = 'exploration'
RULE = ("One case = generated workflow with absolute triggers (foo[^], foo[^+Pk], foo[n]) onto cycling tasks + all-complete outcome plan + seeded schedule; a third of the runs are stopped (--now) or crashed at a seeded point and restarted. After every main-loop iteration each pooled task's prerequisites on an absolute output that is recorded complete in the database must be satisfied (also for instances spawned after the restart); the launched set is compared with the model closure. Distinct = distinct (program, schedule digest, restart point); non-trivial = at least two instances of a task depending on an absolute output were pooled after that output completed.")
ASSUMPTIONS = [
    'jobs, polls, submissions, message transport and the clock are simulated',
    'reference model / invariants cover the generated workflow sub-language',
]
TIERS = {
    'quick': {'n': 800, 'budget_s': 420, 'chunk': 10},
    'thorough': {'n': 16000, 'budget_s': 3000, 'chunk': 25},
}
EXPECTED_PROBES = ['abs_dependents_checked', 'abs_dependent_spawned_after_restart']


def make_params(seed, tier):
    return {'seed': seed}

import json
import os
import random
import sqlite3

from . import c01
from ..boot import CLOCK
from ..core import derive_seed
from ..e1 import Monitor, CommandDriver
from ..gen import atoms

KNOBS = {'p_abs': 0.35, 'span': (3, 6), 'n_sections': (1, 3),
         'p_runahead': 0.4, 'p_optional': 0.15}


class AbsWatch(Monitor):
    def attach(self, h, res, case):
        self.res = res
        h.iter_hooks.append(self.check)
        prog = res.prog
        self.abs_keys = set()
        for s in prog.sections:
            for e, tg in s.lines:
                for a in atoms(e):
                    if a.is_abs():
                        self.abs_keys.add((prog.pstr(a.point(0, prog)), a.task,
                                           a.output))
        self.seen_after = {}
        self.tick = 0            # check() calls, across incarnations
        self.done_at = {}        # abs output -> tick first seen recorded
        self.pooled_at = {}      # instance -> tick first seen pooled

    def check(self, h):
        if not self.abs_keys:
            return
        schd = h.schd
        self.tick += 1
        for i_ in schd.pool.get_tasks():
            self.pooled_at.setdefault(i_.identity, self.tick)
        path = schd.workflow_db_mgr.pri_path
        done = set()
        try:
            con = sqlite3.connect(f'file:{path}?mode=ro', uri=True)
            rows = con.execute('SELECT cycle, name, outputs FROM task_outputs').fetchall()
            con.close()
        except sqlite3.Error:
            return
        for c, n, o in rows:
            try:
                d = json.loads(o) if o else {}
            except ValueError:
                continue
            for trig in (d if isinstance(d, dict) else []):
                if (c, n, trig) in self.abs_keys:
                    done.add((c, n, trig))
        if not done:
            return
        for kk_ in done:
            self.done_at.setdefault(kk_, self.tick)
        for i in schd.pool.get_tasks():
            for p in i.state.prerequisites:
                for k, v in p.items():
                    key = (str(k.point), k.task, k.output)
                    # outputs are keyed by message; map custom messages back
                    trig = key[2][4:] if key[2].startswith('msg ') else key[2]
                    kk = (key[0], key[1], trig)
                    if kk in done:
                        self.res.sim.probe('abs_dependents_checked')
                        n = self.seen_after.setdefault(kk, set())
                        n.add(i.identity)
                        if h.incarnation > 0:
                            self.res.sim.probe('abs_dependent_spawned_after_restart')
                        if not v and not p.is_satisfied():
                            # (an OR expression already true through another
                            # branch is left alone by cylc: harmless)
                            # known finding: the output was committed (early
                            # commit) but the crash came before the pool
                            # tables were rewritten (C20 class F1)
                            cdb = getattr(self, 'crash_db', None)
                            cyc, nm = i.identity.split('/')
                            stale = bool(cdb) and (cyc, nm) in cdb['pool'] and (
                                kk[2] in cdb['outputs'].get((kk[1], kk[0]), ()))
                            preds = (['crash_before_pool_table_rewrite']
                                     if stale else [])
                            pooled = {x.identity for x in schd.pool.get_tasks()}
                            earlier_done = any(
                                k2[1] == nm and k2[0] != cyc
                                and f'{k2[0]}/{k2[1]}' not in pooled
                                and self.res.prog.ppoint(k2[0]) <
                                self.res.prog.ppoint(cyc)
                                for _t, k2 in h.world.launch_log)
                            if not earlier_done:
                                # ... or could not be respawned (its row says
                                # waiting with no outputs: taken for a task
                                # removed by a suicide trigger)
                                earlier_done = any(
                                    m.startswith('Not respawning ') and
                                    m.split()[2].endswith('/' + nm)
                                    for _l, m in h.log.records)
                            # ... and this instance was already pooled when
                            # the output completed (one spawned afterwards is
                            # satisfied from abs_outputs_done)
                            earlier_done = earlier_done and (
                                self.pooled_at.get(i.identity, 0) <=
                                self.done_at.get(kk, 0))
                            if earlier_done and not stale:
                                # the first (listed) child of the absolute
                                # output had already run and left the pool
                                # when the output completed
                                preds.append('first_abs_child_already_finished')
                            import re
                            late = re.compile(
                                r'^\[%s/%s/\d+:(succeeded|failed)[^\]]*\] '
                                r'completed output %s$' % (
                                    re.escape(kk[0]), re.escape(kk[1]),
                                    re.escape(kk[2])))
                            if not preds and any(
                                    late.match(m) for _l, m in h.log.records):
                                # the output's message was handled after the
                                # job's final message, on a proxy that had
                                # completed and left the pool: recorded, but
                                # children neither spawned nor satisfied
                                # (C10-F1 / C19-F1 seen from here)
                                preds.append(
                                    'abs_output_completed_after_final_status')
                            self.res.violate('abs_prerequisite_not_satisfied', {
                                'task': i.identity, 'abs_output': list(kk),
                                'incarnation': h.incarnation,
                                'predicates': preds})


def run(params):
    seed = params['seed']
    rng = random.Random(derive_seed(seed, 'c45'))
    from cylc.flow.workflow_status import StopMode
    how = ['none', 'stop', 'crash'][seed % 3]
    aw = AbsWatch()
    cmds = []
    if how == 'stop':
        cmds = [{'incarnation': 0, 'iter': rng.randint(2, 25), 'name': 'stop',
                 'kwargs': {'mode': StopMode.REQUEST_NOW}}]

    def lifecycle(h, res):
        if how == 'crash':
            h.world.crash_at = rng.randint(80, 400)
        info = h.run_once()
        res.stops.append(info.reason)
        h.world.crash_at = None
        if info.reason == 'crash':
            from . import c20
            aw.crash_db = c20.read_db(h.run_dir)
        if info.reason == 'crash' or info.reason.startswith('stop:REQUEST'):
            h.world.downtime(rng.choice([0.0, 5.0]))
            info = h.run_once()
            res.stops.append(info.reason)

    def end_check(res, mode):
        preds = {}
        if how == 'none':
            preds, clo, launched = c01.end_checks(res)
            for rule, detail in res.violations:
                if rule == 'parentless_chain_broken':
                    detail['property'] = 'C01'
        return preds
    def prog_hook(prog, rng2):
        # absolute triggers on custom outputs (message differs from name);
        # not in crash mode, whose window predicates are keyed by name
        if how == 'crash':
            return
        for s_ in prog.sections:
            for e, _tg in s_.lines:
                for a in atoms(e):
                    cust = prog.tasks[a.task].customs
                    # (not where the atom may be the one that marks the
                    # task's success optional in the graph text: the
                    # outcome plan would go on treating it as optional)
                    if a.is_abs() and cust and a.output == 'succeeded' and (
                            not prog.tasks[a.task].opt.get('succeeded')
                    ) and rng2.random() < 0.5:
                        a.output = rng2.choice(cust)
                        aw.custom_abs = True
        if how == 'stop':
            # two different outputs of one parent instance referenced by
            # absolute triggers (each is recorded, and restored on restart,
            # on its own)
            import random
            r3 = random.Random(repr(rng2.getstate()[1][:4]))
            groups = {}
            for s_ in prog.sections:
                for e, _tg in s_.lines:
                    for a in atoms(e):
                        if a.is_abs():
                            groups.setdefault(
                                (a.task, a.point(0, prog)), []).append(a)
            for _k, al in sorted(groups.items(), key=lambda kv: str(kv[0])):
                if len(al) >= 2 and len({a.output for a in al}) == 1 and (
                        r3.random() < 0.7):
                    al[r3.randrange(len(al))].output = (
                        'started' if al[0].output != 'started'
                        else 'succeeded')

    knobs = dict(KNOBS)
    if how == 'stop':
        # long, tightly runahead-limited runs: dependents of an absolute
        # output are still being spawned after the restart
        knobs.update({'span': (5, 9), 'p_runahead': 0.9})
    r = generic_run(PID, params, knobs=knobs, policy='complete',
                    prog_hook=prog_hook,
                    modes=('none', 'sched'),
                    monitors=[aw, CommandDriver(cmds)], end_check=end_check,
                    lifecycle=lifecycle)
    st = r.get('stats') or {}
    if not any(len(v) >= 2 for v in aw.seen_after.values()):
        st['nontrivial'] = []
    return r
