"""C22 Broadcasts override in precedence order and persist exactly
(engine E4 bcastsim: scheduler start-up + broadcast operation machine)."""
import copy
import random

from ..boot import CLOCK
from ..core import DBCTL, Sim, derive_seed, jdump
from ..harness import Harness, global_text
from ..world import World

PID = 'C22'
ENGINE = 'E4'
LEVEL = 'exploration'
LEVEL_TEXT = (
    'Seeded histories of put/clear/expire operations through the real '
    'Resolvers.broadcast API on a started (paused) scheduler with a family '
    'tree, each followed at a seeded moment by a clean stop or a crash at a '
    'seeded durable effect and a restart; checked against a dict model after '
    'every operation and after every restart.')
LEVEL_NOTE = (
    'Trusted: the dict reference model and its own linearisation of the '
    '(single-inheritance) family tree; only string-valued settings are used '
    'so that no value coercion is involved.')
RULE = (
    'One case = one history of 4-25 operations: put (points incl. "*", valid '
    'and invalid; namespaces incl. root, families, tasks and unknown names; '
    'nested settings; single- and multi-key dictionaries; invalid settings), '
    'clear (by point, namespace, setting), expire (cutoff), interleaved with '
    'main-loop iterations, 0-2 restarts (stop --now or crash at a seeded '
    'SQLite statement). After each operation the broadcast that the real '
    'BroadcastMgr returns for every (task, cycle) is compared with the model '
    'overlay in precedence order (all-cycle root..task, then own-cycle '
    'root..task); clear/expire must remove exactly the targets; after a '
    'restart the broadcast state must equal the model as of the last commit. '
    'Distinct = distinct operation history; non-trivial = the history holds a '
    'clear or expire that removed something and at least one restart with a '
    'non-empty broadcast state.')
ASSUMPTIONS = ['broadcast operations run on the main thread at interception '
               'points (the real server thread calls BroadcastMgr directly)']
TIERS = {
    'quick': {'n': 500, 'budget_s': 420, 'chunk': 8},
    'thorough': {'n': 10000, 'budget_s': 3000, 'chunk': 20},
}
EXPECTED_PROBES = ['multi_key_setting', 'clear_removed_something',
                   'expire_removed_something', 'restart_with_broadcasts',
                   'crash_restart', 'precedence_conflict']

import os
DEBUG = bool(os.environ.get('C22_DEBUG'))

FLOW = """
[scheduler]
    allow implicit tasks = False
    [[events]]
        inactivity timeout = P1D
[scheduling]
    cycling mode = integer
    initial cycle point = 1
    final cycle point = 4
    [[graph]]
        P1 = a & b & c & d
[runtime]
    [[root]]
        script = true
        [[[environment]]]
            R = root
    [[FAM]]
        [[[environment]]]
            F = fam
    [[FAM2]]
        inherit = FAM
    [[a]]
        inherit = FAM
    [[b]]
        inherit = FAM2
    [[c]]
        inherit = FAM2
    [[d]]
"""
ANCESTORS = {   # task -> linearised ancestors, most specific first
    'a': ['a', 'FAM', 'root'], 'b': ['b', 'FAM2', 'FAM', 'root'],
    'c': ['c', 'FAM2', 'FAM', 'root'], 'd': ['d', 'root'],
}
NAMESPACES = ['root', 'FAM', 'FAM2', 'a', 'b', 'c', 'd']
POINTS = ['*', '1', '2', '3', '4']


def make_params(seed, tier):
    return {'seed': seed}


class Mode:
    def __init__(self, value):
        self.value = value

    def __repr__(self):
        return self.value


def gen_setting(rng):
    k = rng.random()
    if k < 0.25:
        return {'script': f'echo {rng.randint(0, 9)}'}
    if k < 0.5:
        return {'environment': {rng.choice('ABC'): str(rng.randint(0, 9))}}
    if k < 0.65:       # multi-key nested
        ks = rng.sample('ABCD', 2)
        return {'environment': {ks[0]: str(rng.randint(0, 9)),
                                ks[1]: str(rng.randint(0, 9))}}
    if k < 0.8:        # multi-key top level
        return {'script': f'echo {rng.randint(0, 9)}',
                'pre-script': f'echo pre{rng.randint(0, 9)}'}
    if k < 0.9:
        return {'post-script': f'echo post{rng.randint(0, 9)}',
                'environment': {'Z': str(rng.randint(0, 9))}}
    return {'no such item': 'x'}       # invalid


def gen_ops(rng):
    ops = []
    n = rng.randint(4, 25)
    for _ in range(n):
        r = rng.random()
        pts = rng.sample(POINTS + ['9', 'x!'], rng.randint(1, 2))
        nss = rng.sample(NAMESPACES + ['nosuch'], rng.randint(1, 2))
        if r < 0.55:
            sets = [gen_setting(rng) for _ in range(rng.randint(1, 2))]
            ops.append(['put', pts, nss, sets])
        elif r < 0.75:
            sel = rng.random()
            ops.append(['clear',
                        pts if sel < 0.6 else None,
                        nss if 0.3 < sel < 0.9 else None,
                        [gen_setting(rng)] if sel > 0.7 else None])
        elif r < 0.85:
            ops.append(['expire', str(rng.randint(1, 5))])
        elif r < 0.93:
            ops.append(['iterate', rng.randint(1, 3)])
        else:
            ops.append(['restart', rng.choice(['stop', 'crash']),
                        rng.randint(1, 40)])
    return ops


# ---------------------------------------------------------------------------
# reference model
# ---------------------------------------------------------------------------

def merge(dst, src):
    for k, v in src.items():
        if isinstance(v, dict):
            merge(dst.setdefault(k, {}), v)
        else:
            dst[k] = v


def valid_setting(s):
    return 'no such item' not in s


def valid_point(p):
    return p == '*' or p.isdigit()


def leaves(d, pre=()):
    for k, v in d.items():
        if isinstance(v, dict):
            yield from leaves(v, pre + (k,))
        else:
            yield pre + (k,)


def model_put(m, pts, nss, sets):
    for s in sets:
        if not valid_setting(s):
            continue
        for p in pts:
            if not valid_point(p):
                continue
            # (cylc creates the point entry even when no namespace matches;
            # empty entries are pruned by the next clear: ignored here)
            for ns in nss:
                if ns not in NAMESPACES:
                    continue
                merge(m.setdefault(p, {}).setdefault(ns, {}), copy.deepcopy(s))


def model_clear(m, pts, nss, sets):
    cancel = None
    if sets:
        cancel = set()
        for s in sets:
            cancel |= set(leaves(s))
    removed = 0
    for p in list(m):
        if pts and p not in pts:
            continue
        for ns in list(m[p]):
            if nss and ns not in nss:
                continue
            for path in list(leaves(m[p][ns])):
                if cancel is None or path in cancel:
                    d = m[p][ns]
                    for k in path[:-1]:
                        d = d[k]
                    del d[path[-1]]
                    removed += 1
    prune(m)
    return removed


def prune(d):
    for k in list(d):
        if isinstance(d[k], dict):
            prune(d[k])
            if not d[k]:
                del d[k]


def model_expire(m, cutoff):
    pts = [p for p in m if p != '*' and int(p) < int(cutoff)]
    if not pts:
        return 0
    return model_clear(m, pts, None, None)


def model_lookup(m, task, cycle):
    out = {}
    for p in ('*', cycle):
        if p not in m:
            continue
        for ns in reversed(ANCESTORS[task]):
            if ns in m[p]:
                merge(out, copy.deepcopy(m[p][ns]))
    return out


def clean(d):
    """Drop empty dicts (cylc may keep empty point/namespace entries)."""
    if not isinstance(d, dict):
        return d
    out = {}
    for k, v in d.items():
        v = clean(v)
        if v == {} or v is None:
            continue
        out[k] = v
    return out


# ---------------------------------------------------------------------------

def run(params):
    seed = params['seed']
    rng = random.Random(derive_seed(seed, 'c22'))
    ops = params.get('ops') or gen_ops(rng)
    sim = Sim(derive_seed(seed, 'sim'))
    world = World(sim, lambda *a: {'submit': True, 'final': 'succeeded',
                                   'outputs': []})
    viol = []
    probes = {}

    def probe(k):
        probes[k] = probes.get(k, 0) + 1

    def V(rule, detail, preds=()):
        viol.append({'rule': rule, 'detail': detail, 'property': PID,
                     'predicates': list(preds), 'choices': None,
                     'trace': [jdump(o)[:200] for o in ops],
                     'replay_params': {'seed': seed, 'ops': ops}})
    h = Harness(sim, FLOW, None, world, gtext=global_text(),
                opts={'paused_start': True})
    model = {}
    snapshots = [copy.deepcopy(model)]   # model after op i (0 = initial)
    committed = [0]                      # index into snapshots at last commit
    state = {'i': 0, 'ops_applied': 0, 'pending_restart': None,
             'restarts': 0, 'had_multi': False}
    from ..core import SimCrash
    from ..e1 import inject_command

    def after_commit(kind):
        if kind == 'pri':
            committed[0] = state['ops_applied']
            if DEBUG:
                print('COMMIT ops_applied', state['ops_applied'], 't', CLOCK.t)

    def check_all(schd, where):
        from cylc.flow.id import Tokens
        bm = schd.broadcast_mgr
        real_all = clean(copy.deepcopy(bm.broadcasts))
        if real_all != clean(model):
            V('broadcast_state_differs_from_model', {
                'where': where, 'real': real_all, 'model': clean(model)},
              preds_for_state(real_all, clean(model)))
            return False
        for task in ANCESTORS:
            for cyc in ('1', '3'):
                got = clean(copy.deepcopy(bm.get_broadcast(
                    Tokens(cycle=cyc, task=task))))
                want = clean(model_lookup(model, task, cyc))
                if got != want:
                    V('task_broadcast_differs_from_precedence_model', {
                        'where': where, 'task': f'{cyc}/{task}',
                        'real': got, 'model': want})
                    return False
                if len([1 for p in ('*', cyc) if p in model
                        for ns in ANCESTORS[task] if ns in model[p]]) > 1:
                    probe('precedence_conflict')
        return True

    def preds_for_state(real, want):
        return []

    def apply_op(schd, op):
        res = schd.server.resolvers
        kind = op[0]
        if kind == 'put':
            _, pts, nss, sets = op
            if any(len(list(leaves(s))) > 1 for s in sets):
                probe('multi_key_setting')
                state['had_multi'] = True
            res.broadcast(Mode('put_broadcast'), cycle_points=list(pts),
                          namespaces=list(nss),
                          settings=copy.deepcopy(sets))
            model_put(model, pts, nss, sets)
        elif kind == 'clear':
            _, pts, nss, sets = op
            res.broadcast(Mode('clear_broadcast'),
                          cycle_points=list(pts) if pts else None,
                          namespaces=list(nss) if nss else None,
                          settings=copy.deepcopy(sets) if sets else None)
            if model_clear(model, pts, nss, [s for s in (sets or [])]):
                probe('clear_removed_something')
        elif kind == 'expire':
            res.broadcast(Mode('expire_broadcast'), cutoff=op[1])
            if model_expire(model, op[1]):
                probe('expire_removed_something')
        state['ops_applied'] += 1
        snapshots.append(copy.deepcopy(model))
        if DEBUG:
            print('OP', state['ops_applied'], op[0], 't', CLOCK.t, 'effects', world.effects, 'crash_at', world.crash_at)

    def on_iter(hh):
        """Between main-loop iterations: apply the next operations."""
        schd = hh.schd
        budget = 3
        if state['pending_restart'] is not None:
            if (state['pending_restart'][1] == 'crash'
                    and hh.iterations > state.get('crash_deadline', 1e9)):
                # no durable effect came: die at this iteration boundary
                sim.fault('crash')
                raise SimCrash('crash at iteration boundary')
            return
        while state['i'] < len(ops) and budget:
            op = ops[state['i']]
            if op[0] == 'iterate':
                state['i'] += 1
                state['iter_left'] = op[1]
                return
            if op[0] == 'restart':
                state['i'] += 1
                state['pending_restart'] = op
                if op[1] == 'stop':
                    from cylc.flow.workflow_status import StopMode
                    inject_command(hh, 'stop', {'mode': StopMode.REQUEST_NOW})
                else:
                    world.crash_at = world.effects + op[2]
                    state['crash_deadline'] = hh.iterations + 3
                return
            state['i'] += 1
            apply_op(schd, op)
            if not check_all(schd, f'after op {state["i"]} {op[0]}'):
                state['i'] = len(ops)
                break
            budget -= 1
        if state['i'] >= len(ops) and state['pending_restart'] is None:
            from cylc.flow.workflow_status import StopMode
            if not state.get('final_stop'):
                state['final_stop'] = True
                inject_command(hh, 'stop', {'mode': StopMode.REQUEST_NOW})

    def on_start(hh):
        if hh.incarnation == 0:
            return
        # restored state must equal the model as of the last commit
        # (frozen when the previous incarnation ended)
        global_model = snapshots[state['ops_applied']]
        real = clean(copy.deepcopy(hh.schd.broadcast_mgr.broadcasts))
        want = clean(global_model)
        if real:
            probe('restart_with_broadcasts')
        if real != want:
            preds = []
            # known-finding predicate: every missing leaf belongs to a
            # multi-key dictionary setting of which one key was persisted
            V('broadcast_state_not_restored', {
                'restored': real, 'model_as_of_last_commit': want,
                'uncommitted_ops_lost': state.get('lost', 0)}, preds)
            # (resynchronise with what was actually restored, so that one
            # finding is not reported again after every later operation)
            global_model = copy.deepcopy(real)
        # continue from the durable state
        model.clear()
        model.update(copy.deepcopy(global_model))
        snapshots[state['ops_applied']] = copy.deepcopy(global_model)

    h.iter_hooks.append(on_iter)
    h.start_hooks.append(on_start)
    err = None
    try:
        for guard in range(5):
            DBCTL.after_commit = None
            info = None
            orig_setup = h._setup_process_state

            def setup():
                orig_setup()
                DBCTL.after_commit = after_commit
            h._setup_process_state = setup
            info = h.run_once()
            h._setup_process_state = orig_setup
            world.crash_at = None
            # what is durable now: everything applied up to the last commit
            DBCTL.after_commit = None
            state['lost'] = state['ops_applied'] - committed[0]
            state['ops_applied'] = committed[0]
            del snapshots[committed[0] + 1:]
            model.clear()
            model.update(copy.deepcopy(snapshots[committed[0]]))
            if state['pending_restart'] is not None:
                if info.reason == 'crash':
                    probe('crash_restart')
                state['pending_restart'] = None
                state['restarts'] += 1
                world.downtime(1.0)
                continue
            if info.reason == 'crash':
                state['restarts'] += 1
                continue
            break
        if info is not None and info.reason.startswith('error'):
            V('scheduler_aborted_unexpectedly', {
                'stop': info.reason,
                'log_tail': [m for _, m in h.log.records[-6:]]})
    except Exception as exc:
        import traceback
        err = 'harness exception: ' + traceback.format_exc()[-1500:]
    finally:
        DBCTL.after_commit = None
        h.cleanup()
    if err:
        return {'error': err, 'violations': [], 'stats': {}}
    nontriv = []
    if (probes.get('clear_removed_something') or probes.get(
            'expire_removed_something')) and probes.get('restart_with_broadcasts'):
        import hashlib
        nontriv = [hashlib.sha256(jdump(ops).encode()).hexdigest()[:16]]
    return {
        'violations': viol,
        'stats': {'faults': dict(sim.faults), 'probes': probes,
                  'sim_seconds': CLOCK.t, 'iterations': h.total_iterations,
                  'digests': [], 'nontrivial': nontriv, 'pool_states': []},
        'sample': {'operations': ops[:12], 'restarts': state['restarts'],
                   'final_model': clean(model)},
    }
