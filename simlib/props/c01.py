"""C01 Graph-faithful execution (engine E1, exploration)."""
import random

from ..core import derive_seed
from ..e1 import Case, run_case
from ..gen import atoms
from .common import (
    LaunchMonitor, RATES_LOSSY, RATES_NONE, RATES_SCHED, base_stats,
    launched_instances, sample_of, swarm_gkw, verdict_of, viol_dicts,
)

PID = 'C01'
ENGINE = 'E1'
LEVEL = 'exploration'
RULE = (
    'One case = one generated cycling workflow (2-6 tasks, 1-3 recurrences, '
    'AND/OR/parenthesised triggers, offsets, custom/optional outputs, retries; a quarter of the cases with a task family and family triggers, a quarter in date-time cycling)'
    ' + an outcome plan in which every finished task is complete + one seeded'
    ' delivery schedule (delays, duplicates, cross-job reordering; odd seeds '
    'add message loss recovered by polling), run through the real scheduler. '
    'Distinct = distinct (program text, outcome plan); non-trivial = at least '
    'one instance was spawned on demand by an upstream output (not parentless)'
    ' and at least 3 jobs ran.')
ASSUMPTIONS = [
    'jobs, polls and submissions are simulated (SimProc); message transport '
    'is a queue fed at interception points',
    'reference model covers the generated sub-language only (DESIGN 4.1)',
]
TIERS = {
    'quick': {'n': 1200, 'budget_s': 420, 'chunk': 10},
    'thorough': {'n': 24000, 'budget_s': 3000, 'chunk': 25},
}
EXPECTED_PROBES = ['spawned_on_demand', 'or_expr', 'offset_trigger',
                   'stall_predicted', 'retry_ran']


def make_params(seed, tier):
    return {'seed': seed, 'mode': ['none', 'sched', 'lossy'][seed % 3]}


def task_sections(model, t):
    """Sections (recurrences) on which task t is placed."""
    out = []
    for s in model.prog.sections:
        on = False
        for expr, targets in s.lines:
            if t in targets:
                on = True
            elif expr is not None and any(
                    a.task == t and a.kind == 'rel' and a.off == 0
                    for a in atoms(expr)):
                on = True
        if on:
            out.append(s)
    return out


def npp_shipped(model, t, p):
    """The next parentless point after p as the shipped
    TaskDef.next_point_parentless computes it: for each recurrence of the
    task take the *immediately* next point, keep those that are parentless,
    return the earliest (None if there is none)."""
    cands = []
    for s in task_sections(model, t):
        nxt = [q for q in s.points if q > p and model.prog.icp <= q <= model.prog.fcp]
        if nxt and model.parentless(t, nxt[0]):
            cands.append(nxt[0])
    return min(cands) if cands else None


def chain_break(model, inst, launched):
    """Known-finding predicate (C01-F1): a parentless instance that the
    shipped auto-spawn chain cannot reach: an earlier *parented* instance
    never spawned, and no instance of the task that did run has this
    instance as its next parentless point (computed as the shipped code
    does, recurrence by recurrence)."""
    t, p = inst
    if not model.parentless(t, p):
        return False
    broken = False
    for q in sorted(model._valid[t]):
        if q >= p:
            break
        if q >= model.start and not model.parentless(t, q) and (
                (t, q) not in launched):
            broken = True
    if not broken:
        return False
    for (t2, q) in launched:
        if t2 == t and q < p and npp_shipped(model, t, q) == p:
            return False        # the shipped chain does reach it
    return True


def explain_missing(model, missing, launched):
    """Return (explained_by_chain_break, unexplained)."""
    explained = set()
    roots = {i for i in missing if chain_break(model, i, launched)}
    explained |= roots
    changed = True
    while changed:
        changed = False
        for inst in sorted(missing - explained):
            t, p = inst
            ups = {(a[0], a[1]) for e in model.prereq_exprs(t, p)
                   for a in model.conc_atoms(e)}
            if ups & explained:
                explained.add(inst)
                changed = True
    return roots, missing - explained


def end_checks(res):
    prog, model = res.prog, res.model
    clo = model.closure()
    res.closure = clo
    launched = launched_instances(res)
    ran_model = set(clo['ran'])
    ran_real = set(launched)
    verdict = verdict_of(res.stops[-1])
    preds = {}
    extra = ran_real - ran_model
    if extra:
        res.violate('ran_outside_closure', {
            'instances': sorted(prog.iid(*i) for i in extra)})
    if clo['verdict'] == 'stall':
        res.sim.probe('stall_predicted')
        stuck = min([p for _, p in clo['unsat']] +
                    [p for _, p in clo['incomplete']])
        # instances whose whole upstream cone lies at or before the stuck
        # point cannot be held back by the runahead limit
        memo = {}

        def reach(i, depth=0):
            if i in memo:
                return memo[i]
            memo[i] = i[1]
            r = i[1]
            if depth < 50:
                for e in model.prereq_exprs(*i):
                    for a in model.conc_atoms(e):
                        u = (a[0], a[1])
                        if u in ran_model:
                            r = max(r, reach(u, depth + 1))
            memo[i] = r
            return r
        must = {i for i in ran_model if reach(i) <= stuck}
        if any(a.kind == 'rel' and a.off > 0 for s in prog.sections
               for e, _ in s.lines for a in atoms(e)):
            # a stalled cycle legitimately holds back the sources of future
            # triggers through the runahead limit: no lower bound then
            must = set()
    else:
        must = ran_model
    missing = must - ran_real
    if missing:
        roots, unexplained = explain_missing(model, missing, launched)
        if unexplained:
            res.violate('closure_instance_not_run', {
                'instances': sorted(prog.iid(*i) for i in unexplained),
                'model_verdict': clo['verdict'], 'real': res.stops[-1]})
        else:
            res.violate('parentless_chain_broken', {
                'instances': sorted(prog.iid(*i) for i in missing),
                'chain_break_at': sorted(prog.iid(*i) for i in roots)})
            preds['parentless_chain_broken'] = ['chain_break']
    if ran_real == ran_model:
        if verdict != clo['verdict']:
            d = {
                'model': clo['verdict'], 'real': res.stops[-1],
                'unsat': sorted(prog.iid(*i) for i in clo['unsat']),
                'incomplete': sorted(prog.iid(*i) for i in clo['incomplete'])}
            if (clo['verdict'] == 'stall' and verdict == 'shutdown'
                    and clo['unsat'] and not clo['incomplete']
                    and all(chain_break(model, i, launched)
                            for i in clo['unsat'])):
                # C01-F1 again: the only instances expected to be left
                # waiting are parentless ones (absolute triggers only) that
                # the shipped chain never spawns, so nothing is left waiting
                d['predicates'] = ['unsatisfied_instance_never_spawned']
                d['property'] = 'C01'
            res.violate('wrong_end_verdict', d)
    return preds, clo, launched


def run(params):
    seed = params['seed']
    rng = random.Random(derive_seed(seed, 'swarm'))
    mode = params.get('mode', 'none')
    rates = {'none': RATES_NONE, 'sched': RATES_SCHED,
             'lossy': RATES_LOSSY}[mode]
    knobs = params.get('knobs')
    if knobs is None and seed % 4 == 1:
        # a quarter of the cases: task families and family triggers
        # (FAM:succeed-all / succeed-any / start-all)
        knobs = {'p_family': 0.9, 'n_tasks': (3, 6)}
    elif knobs is None and seed % 4 == 2:
        # a quarter of the cases: date-time cycling (PT6H units)
        knobs = {'datetime': 1.0}
    case = Case(seed, knobs=knobs, rates=rates,
                policy='complete', gkw=swarm_gkw(rng))
    case.choices = params.get('choices')
    res = run_case(case, monitors=[LaunchMonitor()])
    if res.error:
        return {'error': res.error, 'violations': [], 'stats': {}}
    preds, clo, launched = end_checks(res)
    # probes
    sim = res.sim
    model = res.model
    on_demand = [i for i in launched if not model.parentless(*i)]
    if on_demand:
        sim.probe('spawned_on_demand', len(on_demand))
    text = res.prog.render()
    if ' | ' in text:
        sim.probe('or_expr')
    if '[-P' in text or '[+P' in text:
        sim.probe('offset_trigger')
    if any(len(v) > 1 for v in launched.values()):
        sim.probe('retry_ran')
    nontriv = None
    if on_demand and len(res.launches) >= 3:
        nontriv = [text, sorted((k, str(v)) for k, v in res.plan.cache.items())]
    return {
        'violations': viol_dicts(res, PID, preds),
        'stats': base_stats(res, nontriv),
        'sample': sample_of(res, {'mode': mode,
                                  'model_verdict': clo['verdict']}),
    }
