"""C04 Runahead limit respected, never deadlocks (engine E1, exploration). See DESIGN.md section 7."""
from .common import generic_run, FinalDbMonitor, launched_instances

PID = 'C04'
ENGINE = 'E1'
LEVEL = 'exploration'
RULE = ('One case = generated workflow with 1-3 recurrences of different steps, a runahead limit P0..P4, future-trigger offsets, final/stop points + all-complete outcome plan + seeded schedule. Each release from the runahead pool is compared with a limit recomputed by brute force from the model point sets; the run must finish when every task completes. A share of the cases reloads the unchanged definition once in mid-run. Distinct = distinct (program, schedule digest); non-trivial = the limit was binding at least once (a task was released exactly at the recomputed limit).')
ASSUMPTIONS = [
    'jobs, polls, submissions, message transport and the clock are simulated',
    'reference model / invariants cover the generated workflow sub-language',
]
TIERS = {
    'quick': {'n': 1000, 'budget_s': 420, 'chunk': 10},
    'thorough': {'n': 20000, 'budget_s': 3000, 'chunk': 25},
}
EXPECTED_PROBES = ['runahead_limit_binding', 'future_trigger_present', 'stop_point_set']


def make_params(seed, tier):
    return {'seed': seed}

from ..gen import atoms
from .common import verdict_of

KNOBS = {'p_runahead': 1.0, 'future_with_runahead': True, 'p_future': 0.15,
         'n_sections': (1, 3), 'span': (3, 6), 'p_optional': 0.15}


def prog_hook(prog, rng):
    if rng.random() < 0.3 and prog.fcp - prog.icp >= 2:
        prog.stop = rng.randint(prog.icp + 1, prog.fcp)


def has_future(prog):
    return any(a.kind == 'rel' and a.off > 0 for s in prog.sections
               for e, _ in s.lines for a in atoms(e))


def end_check(res, mode):
    """In a run where every task completes the limit never prevents the
    workflow from finishing."""
    clo = res.model.closure()
    preds = {}
    if has_future(res.prog):
        res.sim.probe('future_trigger_present')
    if res.prog.stop is not None:
        res.sim.probe('stop_point_set')
    if clo['verdict'] == 'shutdown' and verdict_of(res.stops[-1]) == 'stall':
        launched = launched_instances(res)
        missing = set(clo['ran']) - set(launched)
        res.violate('completable_run_stalled', {
            'not_run': sorted(res.prog.iid(*i) for i in missing)[:12],
            'runahead': res.prog.runahead, 'stop': res.stops[-1]})
        if has_future(res.prog):
            preds['completable_run_stalled'] = ['future_trigger_target_not_pooled']
        else:
            # not the runahead limit at all: the parentless auto-spawn chain
            # of a task broke (C01-F1) and something waits for the instance
            # that was never spawned
            from .c01 import explain_missing
            roots, unexplained = explain_missing(res.model, missing, launched)
            if missing and roots and not unexplained:
                preds['completable_run_stalled'] = [
                    'stall_caused_by_broken_parentless_chain']
    return preds


def run(params):
    from .common import reload_monitors
    return generic_run(PID, params, knobs=KNOBS, policy='complete',
                       prog_hook=prog_hook, end_check=end_check,
                       monitors=reload_monitors(params['seed'], 'c04', 4),
                       probe_key='runahead_limit_binding')
