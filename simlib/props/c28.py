"""C28 Group trigger runs each member once, honouring in-group order
(engine E1, exploration)."""
import random

from ..boot import CLOCK
from ..core import derive_seed
from ..e1 import Case, CommandDriver, Monitor, run_case
from .common import (
    RATES_NONE, RATES_SCHED, base_stats, sample_of, swarm_gkw, viol_dicts,
)

PID = 'C28'
ENGINE = 'E1'
LEVEL = 'exploration'
RULE = (
    'One case = generated workflow (no automatic retries) running normally '
    'or started paused, with 1-2 `cylc trigger` commands at seeded main-loop '
    'interception points on a group of 1-5 task instances grown from a '
    'seeded root along graph edges (so that groups have internal '
    'prerequisites; in 55% of the triggers the root is picked at injection '
    'time among the pooled tasks that are finished-but-incomplete or live), in any states the run has reached (unspawned, waiting, '
    'queued, held, live, finished, failed), with --flow unset, =new, =1 or '
    '=none; a hold or hold point precedes the trigger in some runs. Oracles: '
    '(one job) no job ID of a member is submitted twice; (once) after a trigger no member is submitted more than once in the '
    'triggered flows; (left to finish) a group-start member with a live job '
    'at the trigger is not resubmitted while that job is live; (start) a '
    'group-start member without a live job is submitted within 3 main-loop '
    'iterations although held or paused, unless a limited queue is full; '
    '(order) when a member with in-group prerequisites is submitted, each '
    'of its prerequisite expressions is true with off-group atoms taken as '
    'satisfied and in-group atoms evaluated on outputs that in-group jobs '
    'submitted after the trigger (or live at the trigger) have actually '
    'produced by then; (not stranded) a triggered member that is waiting with nothing left to '
    'wait for, unqueued, for 10 consecutive iterations of a running '
    'scheduler is a violation (job preparation failures with submission '
    'retry delays are injected); (all run) if the run then ends by itself every '
    'member whose in-group prerequisites were producible ran. Distinct = '
    'distinct (program, resolved commands); non-trivial = a group of >= 2 '
    'members with an in-group edge, or a member that was live, held or '
    'finished at the trigger.')
ASSUMPTIONS = [
    'members are re-run at most once per trigger because the generated '
    'tasks have no execution retry delays and submissions themselves never '
    'fail (only job preparation may, which submits nothing)',
]
TIERS = {
    'quick': {'n': 1200, 'budget_s': 420, 'chunk': 8},
    'thorough': {'n': 12000, 'budget_s': 3000, 'chunk': 20},
}
EXPECTED_PROBES = ['group_rooted_at_finished_task', 'group_rooted_at_live_task', 'group_with_edge', 'member_live_at_trigger',
                   'member_finished_at_trigger', 'member_held_at_trigger',
                   'member_unspawned_at_trigger', 'trigger_while_paused',
                   'flow_new', 'in_group_order_checked', 'start_checked']
KNOBS = {'span': (2, 4), 'n_tasks': (3, 6), 'p_custom': 0.3, 'p_retries': 0.0,
         'p_submit_retries': 0.3, 'p_runahead': 0.3, 'p_future': 0.0,
         'p_lone': 0.2}
K_START = 3


def make_params(seed, tier):
    return {'seed': seed}


def parents_of(model, name, p):
    out = set()
    for e in model.prereq_exprs(name, p):
        for a in model.conc_atoms(e):
            if model.valid(a[0], a[1]):
                out.add((a[0], a[1]))
    return out


def children_of(model, prog, name, p):
    out = set()
    task = prog.tasks[name]
    for o in ['succeeded', 'failed', 'started', 'submitted',
              'submit-failed'] + list(task.customs):
        for c in model.children(name, p, o):
            if model.valid(c[0], c[1]):
                out.add((c[0], c[1]))
    return out


def gen_cmds(rng, prog, model, paused):
    valid = [(t, p) for t in prog.tasks for p in sorted(model._valid[t])]
    cmds = []
    it = rng.randint(2, 22)
    if rng.random() < 0.3:
        t, p = rng.choice(valid)
        if rng.random() < 0.5:
            cmds.append({'iter': max(1, it - rng.randint(1, 4)), 'slot': 0,
                         'name': 'hold', 'kwargs': {'tasks': [prog.iid(t, p)]}})
        else:
            cmds.append({'iter': max(1, it - rng.randint(1, 4)), 'slot': 0,
                         'name': 'set_hold_point', 'kwargs': {
                             'point': prog.pstr(rng.randint(prog.icp, prog.fcp))}})
    for k in range(rng.randint(1, 2)):
        root = rng.choice(valid)
        group = {root}
        frontier = [root]
        for _ in range(rng.randint(0, 4)):
            if not frontier:
                break
            cur = rng.choice(frontier)
            nb = sorted(parents_of(model, *cur) | children_of(model, prog, *cur))
            nb = [x for x in nb if x not in group]
            if not nb:
                frontier.remove(cur)
                continue
            x = rng.choice(nb)
            group.add(x)
            frontier.append(x)
        if rng.random() < 0.15:
            group.add(rng.choice(valid))
        flow = rng.choice([[], [], [], ['new'], ['new'], ['1'], ['none']])
        dyn = None
        if rng.random() < 0.55:
            dyn = [rng.random(), rng.random(),
                   rng.choice(['finished', 'finished', 'finished', 'live'])]
        cmds.append({'iter': it, 'slot': rng.randint(0, 1),
                     'name': 'force_trigger_tasks', 'dyn': dyn,
                     'group': sorted([list(g) for g in group]),
                     'kwargs': {'tasks': sorted(prog.iid(*g) for g in group),
                                'flow': flow}})
        it += rng.randint(2, 14)
    cmds.sort(key=lambda c: (c['iter'], c['slot']))
    if paused:
        cmds.append({'at_time': 60.0, 'name': 'resume', 'kwargs': {}})
    cmds.append({'at_time': 150.0, 'name': 'release_hold_point', 'kwargs': {}})
    cmds.append({'at_time': 150.0, 'name': 'release', 'kwargs': {
        'tasks': ['*/*']}})
    return cmds


class Trig:
    def __init__(self, t, it, group, flow, model, prog):
        self.t = t
        self.it = it
        self.group = set(group)
        self.orig_group = set(group)
        self.flow = list(flow)
        self.launches = {}          # member -> [(t, flows)]
        self.live = {}              # member -> submit_num live at trigger
        self.state = {}
        self.flow_nums = None
        self.start = set()
        self.ingroup = {}
        for m in self.group:
            pa = parents_of(model, *m) & self.group
            # a member is not its own in-group parent
            pa.discard(m)
            self.ingroup[m] = pa
            if not pa:
                self.start.add(m)
        self.start_pending = {}
        self.member_flows = {}
        self.proxy = {}
        self.by_proxy = {}
        self.proxies_recorded = False
        self.stopping = False
        self.any_flows = {}
        self.held = {}


class Driver(CommandDriver):
    def __init__(self, schedule, watch):
        super().__init__(schedule)
        self.watch = watch

    def resolve(self, h, c):
        if c['name'] == 'force_trigger_tasks':
            if c.get('dyn') is not None:
                self.regroup(h, c)
            self.watch.on_trigger(h, c)
        return c['kwargs']

    def regroup(self, h, c):
        """Root the group at a task that is in the pool finished but
        incomplete (or live), picked from the live state, plus some of its
        graph children."""
        res = self.watch.res
        prog, model = res.prog, res.model
        u1, u2, want = c['dyn']
        cand = sorted(
            i.identity for i in h.schd.pool.get_tasks()
            if i.tdef.name in prog.tasks and i.state.status in (
                ('succeeded', 'failed', 'submit-failed') if want == 'finished'
                else ('submitted', 'running')))
        if not cand:
            return
        ident = cand[int(u1 * len(cand)) % len(cand)]
        cyc, name = ident.split('/')
        root = (name, prog.ppoint(cyc))
        kids = sorted(children_of(model, prog, *root) - {root})
        group = {root}
        if kids:
            group.add(kids[int(u2 * len(kids)) % len(kids)])
            if len(kids) > 1 and u2 > 0.5:
                group.add(kids[int(u1 * len(kids)) % len(kids)])
        res.sim.probe('group_rooted_at_' + want + '_task')
        c['group'] = sorted([list(g) for g in group])
        c['kwargs'] = dict(c['kwargs'])
        c['kwargs']['tasks'] = sorted(prog.iid(*g) for g in group)


class TriggerWatch(Monitor):
    def __init__(self):
        self.trigs = []
        self.nontrivial = False
        self.cur_new = None
        self.idle = {}

    def attach(self, h, res, case):
        self.res = res
        self.h = h
        h.world.on_launch.append(self.on_launch)
        h.iter_hooks.append(self.post)

    def on_trigger(self, h, c):
        res = self.res
        prog, model = res.prog, res.model
        group = [tuple(g) for g in c['group']]
        tr = Trig(CLOCK.t, h.iterations, group, c['kwargs']['flow'], model, prog)
        pool = {i.identity: i for i in h.schd.pool.get_tasks()}
        now = CLOCK.t
        active_flows = set()
        for i in pool.values():
            active_flows |= set(i.flow_nums)
        tr.stopping = h.schd.stop_mode is not None
        if h.schd.is_paused:
            res.sim.probe('trigger_while_paused')
        if tr.flow == ['new']:
            res.sim.probe('flow_new')
        for m in tr.group:
            ident = prog.iid(*m)
            i = pool.get(ident)
            if i is None:
                res.sim.probe('member_unspawned_at_trigger')
                tr.state[m] = None
                continue
            tr.state[m] = i.state.status
            tr.member_flows[m] = set(i.flow_nums)
            if i.state.status in ('preparing', 'submitted', 'running'):
                res.sim.probe('member_live_at_trigger')
                tr.live[m] = i.submit_num
                self.nontrivial = True
            elif i.state.status in ('succeeded', 'failed', 'submit-failed',
                                    'expired'):
                res.sim.probe('member_finished_at_trigger')
                self.nontrivial = True
            tr.held[m] = bool(i.state.is_held)
            if i.state.is_held:
                res.sim.probe('member_held_at_trigger')
                self.nontrivial = True
        if any(tr.ingroup[m] for m in tr.group):
            res.sim.probe('group_with_edge')
            self.nontrivial = True
        # flows the trigger runs in (None = cannot tell: none / not judged)
        if tr.flow == ['none']:
            tr.flow_nums = set()
        elif tr.flow == ['new']:
            # (each connected sub-group of the matched tasks is triggered
            # separately and allocates its own new flow number: recorded
            # from FlowMgr.get_flow_num while the command runs, see below)
            tr.flow_nums = set()
        elif tr.flow:
            tr.flow_nums = {int(f) for f in tr.flow}
        else:
            act = [pool[prog.iid(*m)] for m in tr.group if prog.iid(*m) in pool]
            if act:
                fl = set()
                for i in act:
                    fl |= set(i.flow_nums)
                tr.flow_nums = fl or None
            else:
                tr.flow_nums = active_flows or None
        if tr.flow == ['new']:
            fm = h.schd.pool.flow_mgr
            if not getattr(fm, '_verif_wrapped', False):
                real = fm.get_flow
                watch = self

                def get_flow_num(*a, **k):
                    n = real(*a, **k)
                    if watch.cur_new is not None:
                        watch.cur_new.flow_nums.add(n)
                    return n
                fm.get_flow = get_flow_num
                fm._verif_wrapped = True
            tr.flow_nums = set()
            self.cur_new = tr
        else:
            self.cur_new = None
        # earlier triggers that share members are closed for those members
        for old in self.trigs:
            old.group -= tr.group
        for m in tr.start:
            if m not in tr.live and m[1] <= model.stop + 10 ** 6:
                tr.start_pending[m] = h.iterations
        self.trigs.append(tr)

    # -- truth after the trigger -------------------------------------------------
    def truth(self, tr, now):
        res = self.res
        prog, plan = res.prog, res.plan
        out = {}
        for key, job in list(res.world.jobs.items()) + list(res.world.superseded):
            pstr, name, nn = key
            if name not in prog.tasks:
                continue
            m = (name, prog.ppoint(pstr))
            if m not in tr.ingroup and m not in tr.group:
                continue
            live_ok = m in tr.live and nn == tr.live[m]
            if job.t_submit < tr.t - 1e-9 and not live_ok:
                continue
            s = out.setdefault(m, set())
            if not job.submit_ok:
                if now >= job.t_submit:
                    s.add('submit-failed')
                continue
            s.add('submitted')
            if job.started(now):
                s.add('started')
            for msg in job.outputs_at(now):
                s.add(msg[4:] if msg.startswith('msg ') else msg)
            fin = job.final_at(now)
            if fin == 'succeeded':
                s.add('succeeded')
            elif fin in ('failed', 'vanish', 'killed'):
                s.add('failed')
        return out

    def stale_msgs(self, tr, members):
        """Messages of jobs submitted before the trigger (and not live group
        starts) that were delivered after it, for the given members."""
        res = self.res
        prog = res.prog
        out = []
        for t, key, msg in res.world.msg_log:
            if t < tr.t - 1e-9 or key[1] not in prog.tasks:
                continue
            m = (key[1], prog.ppoint(key[0]))
            if m not in members or (m in tr.live and m in tr.start):
                continue
            job = res.world.jobs.get(key)
            if job is not None and job.t_submit < tr.t - 1e-9:
                out.append((t, list(key), msg))
        return out

    def on_launch(self, key, job):
        res = self.res
        prog, model = res.prog, res.model
        pstr, name, nn = key
        if name not in prog.tasks:
            return
        m = (name, prog.ppoint(pstr))
        now = CLOCK.t
        tr = None
        for t in reversed(self.trigs):
            if m in t.group and now >= t.t - 1e-9:
                tr = t
                break
        if tr is None:
            return
        if m in tr.live and nn <= tr.live[m]:
            return      # the job that was already in preparation at the trigger
        it = None
        if self.h.schd is not None:
            it = self.h.schd.pool._get_task_by_id(prog.iid(*m))
        flows = set(it.flow_nums) if it is not None else None
        tr.any_flows.setdefault(m, []).append(flows)
        if flows is None or (not flows and tr.flow == ['none']) or (
                tr.flow_nums and flows & tr.flow_nums) or tr.flow_nums is None:
            tr.start_pending.pop(m, None)   # it did start in a triggered flow
        if tr.flow == ['none']:
            if flows is None or flows:
                return      # not the no-flow instance started by the trigger
        elif flows is not None and tr.flow_nums and not (
                flows & tr.flow_nums
                and flows <= (tr.flow_nums | tr.member_flows.get(m, set()))):
            # an instance in other flows only, or one that a flow started
            # later has since merged into (a merge re-runs an incomplete
            # finished task)
            return
        tr.launches.setdefault(m, []).append((now, flows, nn))
        tr.start_pending.pop(m, None)
        # one job per submit number
        if (pstr, name, nn) in [tuple(k) for k in res.world.dup_launches]:
            mf_ = tr.member_flows.get(m)
            res.violate('two_jobs_with_one_submit_number_after_trigger', {
                'member': prog.iid(*m), 'job': nn, 't_trigger': tr.t,
                't': now, 'flow': tr.flow,
                'member_flows_at_trigger': sorted(mf_) if mf_ else None,
                'predicates': ['member_pooled_in_other_flow_at_trigger']
                if mf_ and tr.flow_nums is not None and not (
                    mf_ <= tr.flow_nums) else (
                    ['rerun_after_history_erased_reuses_submit_number']
                    if any(t0_ < tr.t - 1e-9 and k_[0] == pstr
                           and k_[1] == name
                           for t0_, k_ in res.world.launch_log) else [])})
        # left to finish
        if m in tr.live and m in tr.start:
            old = res.world.jobs.get((pstr, name, tr.live[m]))
            if old is not None and nn > tr.live[m] and old.active(now) and (
                    old.killed_at is None):
                res.violate('live_group_start_member_resubmitted', {
                    'member': prog.iid(*m), 'live_job': tr.live[m],
                    'new_job': nn, 't_trigger': tr.t, 't': now})
        # once: launches of the proxy that the trigger created or acted on
        # (a later instance spawned by an upstream output is a natural run)
        if it is not None:
            if m not in tr.proxy:
                tr.proxy[m] = it
            tr.by_proxy.setdefault(m, []).append(it is tr.proxy[m])
        same = [x for x, mine in zip(tr.launches[m], tr.by_proxy.get(m, []))
                if mine] if it is not None else []
        if len(same) > 1:
            res.violate('member_ran_more_than_once_per_trigger', {
                'member': prog.iid(*m), 'launches': [
                    (x[0], sorted(x[1]) if x[1] is not None else None, x[2])
                    for x in tr.launches[m]],
                'trigger_flows': sorted(tr.flow_nums or []),
                't_trigger': tr.t})
        # order
        mf = tr.member_flows.get(m)
        respawned = mf is None or (
            bool(mf) and tr.flow_nums is not None and mf <= tr.flow_nums)
        if tr.ingroup.get(m) and respawned and (
                flows is None or tr.flow_nums is None or not tr.flow_nums
                or flows <= tr.flow_nums):
            # (a member pooled in other flows, or in no flow, is not removed
            # and re-spawned by the trigger: it keeps its prerequisites)
            # (an instance merged with one of another flow may have had its
            # prerequisites satisfied there: not judged)
            truth = self.truth(tr, now)
            res.sim.probe('in_group_order_checked')
            for e in model.prereq_exprs(*m):
                atoms = list(model.conc_atoms(e))
                if not any((a[0], a[1]) in tr.ingroup[m] for a in atoms):
                    continue
                tv = dict(truth)
                # off-group atoms are satisfied automatically
                for a in atoms:
                    if (a[0], a[1]) not in tr.ingroup[m]:
                        tv.setdefault((a[0], a[1]), set())
                        tv[(a[0], a[1])] = tv[(a[0], a[1])] | {a[2]}
                if not model.eval(e, tv, m[1]):
                    stale = self.stale_msgs(tr, tr.ingroup[m])
                    res.violate('member_ran_before_in_group_prerequisite', {
                        'stale_messages': stale[:4],
                        'predicates': ['stale_job_message_after_respawn']
                        if stale else [],
                        'member': prog.iid(*m), 'expr': repr(e),
                        'in_group_parents': sorted(
                            prog.iid(*x) for x in tr.ingroup[m]),
                        'produced_since_trigger': {
                            prog.iid(*k): sorted(v) for k, v in truth.items()
                            if k in tr.ingroup[m]},
                        't_trigger': tr.t, 't': now})
                    break

    def post(self, h):
        if h.schd is None:
            return
        res = self.res
        prog = res.prog
        # a triggered member that is ready (nothing left to wait for) must not
        # sit unqueued: the main loop never queues manually triggered tasks,
        # so nothing would ever run it
        if not h.schd.is_paused and h.schd.stop_mode is None:
            members = set()
            for tr in self.trigs:
                members |= tr.group
            seen = set()
            for i in h.schd.pool.get_tasks():
                if i.tdef.name not in prog.tasks:
                    continue
                m = (i.tdef.name, prog.ppoint(str(i.point)))
                if m not in members:
                    continue
                st = i.state
                if (st.status == 'waiting' and not st.is_queued
                        and not st.is_held and not st.is_runahead
                        and st.prerequisites_all_satisfied()
                        and st.xtriggers_all_satisfied()
                        and st.external_triggers_all_satisfied()
                        and not i.waiting_on_job_prep):
                    seen.add(m)
                    n = self.idle.get(m, 0) + 1
                    self.idle[m] = n
                    if n == 10:
                        res.violate('triggered_member_ready_but_never_submitted', {
                            'member': i.identity, 'iterations': n,
                            'manual': bool(i.is_manual_submit),
                            'submit_num': i.submit_num, 't': CLOCK.t})
            for m in list(self.idle):
                if m not in seen:
                    del self.idle[m]
        for tr in self.trigs:
            if not tr.proxies_recorded:
                tr.proxies_recorded = True
                for m in tr.group:
                    i = h.schd.pool._get_task_by_id(prog.iid(*m))
                    if i is not None and m not in tr.proxy:
                        tr.proxy[m] = i
            for m, it0 in list(tr.start_pending.items()):
                if m not in tr.group:
                    tr.start_pending.pop(m)
                    continue
                if h.iterations < it0 + K_START:
                    continue
                tr.start_pending.pop(m)
                res.sim.probe('start_checked')
                i = h.schd.pool._get_task_by_id(prog.iid(*m))
                if tr.flow == ['none'] and tr.state.get(m) is not None:
                    continue    # no-flow trigger of an active task is ignored
                if i is not None and i.state.status in (
                        'preparing', 'submitted', 'running'):
                    continue
                if i is not None and i.state.is_queued and any(
                        q.get('limit') for q in
                        h.schd.config.cfg['scheduling']['queues'].values()):
                    continue
                if h.schd.stop_mode is not None:
                    continue
                if m[1] > res.model.stop or not res.model.valid(*m):
                    continue
                if i is not None and (i.state.status in (
                        'submit-failed', 'failed', 'succeeded') or any(
                        x.startswith('_cylc_') for x in i.state.xtriggers)):
                    continue    # it did start: job preparation failed, and
                                # it now waits for its submission retry
                stale = self.stale_msgs(tr, {m})
                preds = ['stale_job_message_after_respawn'] if stale else []
                if (i is not None and tr.state.get(m) is None
                        and i.state.status == 'waiting'
                        and not i.is_manual_submit):
                    # not pooled at the trigger, pooled now, but not by the
                    # trigger (which marks its tasks as manually submitted)
                    preds.append('member_autospawned_during_trigger')
                res.violate('group_start_member_not_started', {
                    'stale_messages': stale[:4],
                    'predicates': preds,
                    'member': prog.iid(*m), 't_trigger': tr.t,
                    'iterations_waited': K_START,
                    'state': None if i is None else [
                        i.state.status, 'held' if i.state.is_held else '',
                        'queued' if i.state.is_queued else '',
                        'runahead' if i.state.is_runahead else ''],
                    'state_at_trigger': tr.state.get(m),
                    'paused': bool(h.schd.is_paused), 'flow': tr.flow})


def run(params):
    seed = params['seed']
    rng = random.Random(derive_seed(seed, 'c28'))
    gkw = swarm_gkw(rng)
    rates = dict(RATES_NONE if rng.random() < 0.6 else RATES_SCHED)
    if rng.random() < 0.5:
        # job preparation may fail (script check) before any submission:
        # tasks with submission retry delays then go back to waiting
        rates['job_prep_fail'] = 0.1
    paused = rng.random() < 0.3
    case = Case(seed, knobs=KNOBS, rates=rates,
                policy=rng.choice(['complete', 'any', 'any']),
                plan_kw={'p_fail': 0.3, 'p_subfail': 0.0}, gkw=gkw,
                opts={'paused_start': True} if paused else {})
    case.choices = params.get('choices')
    case.build()
    if rng.random() < 0.3:
        case.prog.queues = {'default': (rng.randint(1, 2), [])}
    from ..refmodel import Model
    model = Model(case.prog, None)
    cmds = params.get('cmds') or gen_cmds(rng, case.prog, model, paused)
    tw = TriggerWatch()
    drv = Driver([dict(c) for c in cmds], tw)
    res = run_case(case, monitors=[drv, tw])
    if res.error:
        return {'error': res.error, 'violations': [], 'stats': {}}
    stop = res.stops[-1]
    if stop.startswith('error:') and 'stall timeout' not in stop and (
            'inactivity' not in stop):
        preds = []
        if "'graph_depth'" in stop and 'AttributeError' in stop:
            preds.append('datastore_duplicate_child_crash')
        res.violate('scheduler_crashed_after_trigger', {
            'stop': stop, 'log_tail': res.log_tail[-6:], 'predicates': preds})
    if stop == 'stop:AUTOMATIC':
        for tr in tw.trigs[-1:]:
            # (only the last trigger of a run: a later trigger can merge
            # other flows into members of an earlier group, after which an
            # earlier run of a downstream member counts as done)
            if tr.stopping:
                continue        # issued while the scheduler was shutting down
            for m in sorted(tr.group):
                if m in tr.live or tr.launches.get(m):
                    continue
                if tr.flow == ['none']:
                    continue
                merged = False
                for p_ in tr.orig_group - {m}:
                    mf = tr.member_flows.get(p_)
                    if p_ in tr.live or (mf is not None and tr.flow_nums and
                                         not mf <= tr.flow_nums):
                        merged = True
                    for fl in tr.any_flows.get(p_, []):
                        if fl is None or (tr.flow_nums and
                                          not fl <= tr.flow_nums):
                            merged = True
                if merged:
                    # the group has a member that also belongs to other flows (live
                    # and left to finish, pooled in another flow, or merged
                    # later): it is spawned in the merged flows, where an
                    # earlier run counts as done; not judged
                    continue
                if m[1] > res.model.stop or not res.model.valid(*m):
                    continue
                later = [t for t, k in res.world.launch_log
                         if k[1] == m[0] and k[0] == res.prog.pstr(m[1])
                         and t >= tr.t - 1e-9]
                if later:
                    continue        # ran, in flows we could not attribute
                # were its in-group prerequisites ever satisfiable?
                truth = tw.truth(tr, CLOCK.t + 1e9)
                ok = True
                for e in res.model.prereq_exprs(*m):
                    ats = list(res.model.conc_atoms(e))
                    tv = dict(truth)
                    for a in ats:
                        if (a[0], a[1]) not in tr.ingroup[m]:
                            tv[(a[0], a[1])] = tv.get((a[0], a[1]), set()) | {a[2]}
                    if not res.model.eval(e, tv, m[1]):
                        ok = False
                if not ok:
                    continue
                res.violate('member_never_ran_after_trigger', {
                    'member': res.prog.iid(*m), 't_trigger': tr.t,
                    'flow': tr.flow, 'state_at_trigger': tr.state.get(m),
                    'stale_messages': tw.stale_msgs(tr, {m})[:3],
                    'predicates': ['stale_job_message_after_respawn']
                    if tw.stale_msgs(tr, {m}) else []})
    resolved = [(d[2], d[3], str(d[4])) for d in res.commands_done]
    nontriv = None
    if tw.nontrivial and tw.trigs:
        nontriv = [res.prog.render(), resolved]
    return {'violations': viol_dicts(res, PID, {}),
            'stats': base_stats(res, nontriv),
            'sample': sample_of(res, {'commands': resolved})}
