"""C32 Clock expiry only expires eligible tasks (engine E1, exploration)."""
import random

from ..boot import CLOCK
from ..core import derive_seed
from ..e1 import Case, CommandDriver, Monitor, run_case
from ..gen import atoms
from ..monitors import InvariantMonitor
from .common import (
    LaunchMonitor, RATES_NONE, RATES_SCHED, base_stats, launched_instances,
    sample_of, swarm_gkw, unexpected_stop, viol_dicts,
)

PID = 'C32'
ENGINE = 'E1'
LEVEL = 'exploration'
RULE = (
    'One case = generated datetime-cycling workflow (PT6H units) in which 1-2 '
    'tasks have clock-expire offsets and :expire? children, an epoch placed '
    'so that some instances are past expiry at start-up, some expire during '
    'the run and some only after a forward clock jump injected at a seeded '
    'main-loop iteration, + outcome plan with retries and failures + seeded '
    'schedule; in a third of the cases the default queue is limited to 1 and '
    'a waiting clock-expire task is triggered by command (it then waits in '
    'the queue), followed in some runs by a reload. Every status change to expired is checked (the task was '
    'waiting, had not been triggered by a command, and the clock the scheduler reads had '
    'passed point + offset); no job is launched for an expired instance; at '
    'the end of the iteration each child of the expired output per the '
    'model is in the pool or has run. Distinct = distinct (program, epoch, '
    'clock jumps, schedule digest); non-trivial = at least one task expired '
    'and at least one clock-expire task ran normally.')
ASSUMPTIONS = ['only forward clock jumps are injected']
TIERS = {
    'quick': {'n': 800, 'budget_s': 420, 'chunk': 10},
    'thorough': {'n': 16000, 'budget_s': 3000, 'chunk': 25},
}
EXPECTED_PROBES = ['expire_task_triggered', 'task_expired', 'expire_task_ran', 'clock_jump',
                   'expired_while_retrying', 'expire_children_spawned']
KNOBS = {'datetime': 1.0, 'n_tasks': (2, 5), 'span': (3, 6),
         'p_retries': 0.4, 'p_runahead': 0.3}


def make_params(seed, tier):
    return {'seed': seed}


class ExpireWatch(Monitor):
    def attach(self, h, res, case):
        self.res = res
        self.h = h
        self.expired = {}     # identity -> time
        self.pending_children = []
        h.iter_hooks.append(self.iter_end)
        # observe transitions through the invariant monitor's log
        self.n_tr = 0

    def iter_end(self, h):
        res = self.res
        prog, model = res.prog, res.model
        mon = self.inv
        schd = h.schd
        trs = mon.transitions
        pool_ids = {i.identity for i in schd.pool.get_tasks()}
        self.ever = getattr(self, 'ever', set()) | pool_ids
        launched = {f'{k[0]}/{k[1]}' for _, k in res.world.launch_log}
        # (a child that was pooled earlier and has itself expired or
        # finished is not spawned again)
        launched |= self.ever | {tr[1] for tr in trs}
        while self.n_tr < len(trs):
            t, ident, old, new = trs[self.n_tr]
            self.n_tr += 1
            if new != 'expired':
                continue
            cyc, name = ident.split('/')
            task = prog.tasks.get(name)
            if task is None:
                continue
            p = prog.ppoint(cyc)
            res.sim.probe('task_expired')
            self.expired[ident] = t
            if old != 'waiting':
                res.violate('non_waiting_task_expired', {
                    'task': ident, 'from': old})
            if ident in getattr(self, 'triggered', ()) and not any(
                    f'{k[0]}/{k[1]}' == ident and
                    lt >= self.triggered[ident] - 1e-9
                    for lt, k in res.world.launch_log):
                # (triggered and not yet submitted since: once its job has
                # been submitted the trigger is spent, and a later retry
                # waits like any other task)
                res.violate('manually_triggered_task_expired', {
                    'task': ident, 'triggered_at': self.triggered[ident],
                    'expired_at': t, 'commands': [
                        (d[0], d[3]) for d in getattr(res, 'commands_done', [])]})
            if task.clock_expire is None:
                res.violate('task_without_clock_expire_expired', {'task': ident})
            else:
                due = prog.point_epoch(p) + task.clock_expire * 3600.0
                now = CLOCK.epoch + t
                if now < due - 1e-6:
                    res.violate('expired_before_expiry_time', {
                        'task': ident, 'now': now, 'expiry_time': due})
            if any(k[0] == cyc and k[1] == name and kk > 0
                   for kk, k in enumerate([])):
                pass
            # children of the expired output per the model
            kids = {
                c for c in model.children(name, p, 'expired')
                # (not spawned if it depends on something beyond the stop
                # point)
                if not any(a[1] > model.stop for e in model.prereq_exprs(*c)
                           for a in model.conc_atoms(e))}
            missing = [prog.iid(*c) for c in kids
                       if prog.iid(*c) not in pool_ids
                       and prog.iid(*c) not in launched
                       and c[1] <= model.stop]
            if kids:
                res.sim.probe('expire_children_spawned')
            if missing:
                res.violate('expire_children_not_spawned', {
                    'task': ident, 'missing_children': missing})
        # retrying tasks count as waiting (may expire): probe
        for ident, t in self.expired.items():
            pass

    def finish(self, h, res, case):
        # no job launched for an instance after it expired
        for t, key in res.world.launch_log:
            ident = f'{key[0]}/{key[1]}'
            if ident in self.expired and t > self.expired[ident] + 1e-6:
                res.violate('job_launched_for_expired_task', {
                    'job': list(key), 'launched_at': t,
                    'expired_at': self.expired[ident]})
            if ident in self.expired and t <= self.expired[ident]:
                res.sim.probe('expired_while_retrying')
        for t, key in res.world.launch_log:
            n = key[1]
            if n in res.prog.tasks and res.prog.tasks[n].clock_expire is not None and (
                    f'{key[0]}/{n}' not in self.expired):
                res.sim.probe('expire_task_ran')


class TrigDriver(CommandDriver):
    """Triggers a pooled waiting clock-expire task (picked at injection
    time); a reload may follow."""

    def __init__(self, schedule, watch, manual):
        super().__init__(schedule)
        self.watch = watch
        self.manual = manual

    def resolve(self, h, c):
        if 'pick' not in c:
            return c['kwargs']
        prog = self.watch.res.prog
        cand = sorted(
            i.identity for i in h.schd.pool.get_tasks()
            if i.state.status == 'waiting' and i.tdef.name in prog.tasks
            and prog.tasks[i.tdef.name].clock_expire is not None)
        if not cand:
            return None
        ident = cand[int(c['pick'] * len(cand)) % len(cand)]
        self.watch.triggered[ident] = CLOCK.t
        cyc, name = ident.split('/')
        self.manual.add((name, prog.ppoint(cyc)))
        self.watch.res.sim.probe('expire_task_triggered')
        kw = dict(c['kwargs'])
        kw['tasks'] = [ident]
        return kw


def prog_hook(prog, rng):
    names = list(prog.tasks)
    chosen = rng.sample(names, min(len(names), rng.randint(1, 2)))
    for n in chosen:
        t = prog.tasks[n]
        t.clock_expire = rng.choice([0, 1, 3, 6])      # hours after the point
        t.opt['expired'] = True
        # give the expired output a child somewhere
        others = [m for m in names if m != n]
        if others and rng.random() < 0.8:
            from ..gen import Atom
            sec = rng.choice(prog.sections)
            tgt = rng.choice(others)
            sec.lines.append((('atom', Atom(n, 'expired', 'rel', 0)), [tgt]))
            # both branches optional, as cylc requires
            t.opt['succeeded'] = True


def run(params):
    seed = params['seed']
    rng = random.Random(derive_seed(seed, 'c32'))
    gkw = swarm_gkw(rng)
    case = Case(seed, knobs=KNOBS, rates=[RATES_NONE, RATES_SCHED][seed % 2],
                policy='any', plan_kw={'p_fail': 0.3}, gkw=gkw)
    case.choices = params.get('choices')
    case.build()
    prog = case.prog
    prog_hook(prog, rng)
    # place the epoch around the expiry time of a middle cycle point
    ce = [t for t in prog.tasks.values() if t.clock_expire is not None]
    pts = list(range(prog.icp, prog.fcp + 1))
    k = rng.choice(pts)
    off = rng.choice(ce).clock_expire if ce else 0
    case.epoch = prog.point_epoch(k) + off * 3600.0 - rng.choice(
        [-20.0, 5.0, 15.0, 40.0, 300.0])
    jump_iters = sorted(rng.sample(range(3, 40), rng.randint(0, 2)))
    with_cmds = seed % 3 == 0
    manual = set()
    inv = InvariantMonitor(manual=manual, commands=with_cmds)
    ew = ExpireWatch()
    ew.inv = inv
    ew.triggered = {}
    mons = []
    if with_cmds:
        # a full queue keeps a triggered task waiting (queued), where a
        # clock-expire check could wrongly catch it; a reload may follow
        prog.queues = {'default': (1, [])}
        it = rng.randint(1, 14)
        cmds = [{'iter': it, 'slot': rng.randint(0, 1),
                 'name': 'force_trigger_tasks', 'pick': rng.random(),
                 'kwargs': {'flow': []}}]
        if rng.random() < 0.6:
            cmds.append({'iter': it + rng.randint(0, 2), 'slot': 1,
                         'name': 'reload_workflow', 'kwargs': {}})
        if rng.random() < 0.4:
            cmds.append({'iter': it + rng.randint(2, 8), 'slot': 0,
                         'name': 'force_trigger_tasks', 'pick': rng.random(),
                         'kwargs': {'flow': []}})
        mons.append(TrigDriver(cmds, ew, manual))
    prog.inactivity_timeout = 'P5D'    # clock jumps must not trip it

    def expired_truth():
        # expiry is decided by the scheduler; taken from the observed
        # status changes (they are checked separately)
        out = {}
        for t, ident, old, new in inv.transitions:
            if new == 'expired':
                cyc, name = ident.split('/')
                if name in prog.tasks:
                    out.setdefault((name, prog.ppoint(cyc)), set()).add('expired')
        return out

    def setup(h, res, c):
        def gap(hh):
            if jump_iters and h.iterations == jump_iters[0]:
                jump_iters.pop(0)
                h.sim.fault('clock_jump_fwd')
                h.sim.probe('clock_jump')
                return rng.choice([3600.0, 6 * 3600.0, 13 * 3600.0])
            return 0
        h.stall_gap = gap
    res = run_case(case, monitors=[
        LaunchMonitor(truth_extra=expired_truth, manual=manual,
                      check_prereqs=not with_cmds), inv, ew] + mons,
        setup=setup)
    if res.error:
        return {'error': res.error, 'violations': [], 'stats': {}}
    if unexpected_stop(res.stops[-1]) and not with_cmds:
        res.violate('scheduler_aborted_unexpectedly', {
            'stop': res.stops[-1], 'log_tail': res.log_tail[-5:],
            'property': 'C03'})
    nontriv = None
    if res.sim.probes.get('task_expired') and res.sim.probes.get(
            'expire_task_ran'):
        nontriv = [prog.render(), case.epoch, res.sim.hexdigest()]
    return {'violations': viol_dicts(res, PID, {}),
            'stats': base_stats(res, nontriv),
            'sample': sample_of(res, {
                'epoch': case.epoch,
                'clock_expire': {t.name: f'PT{t.clock_expire}H' for t in ce},
                'expired': ew.expired})}
