"""C07 Cycle bounds and sequences (engine E1, exploration). See DESIGN.md section 7."""
from .common import generic_run, FinalDbMonitor, launched_instances

PID = 'C07'
ENGINE = 'E1'
LEVEL = 'exploration'
RULE = ('One case = generated workflow with several recurrences of different steps/offsets, triggers with negative and positive offsets landing off-sequence, before the initial and after the final point, half of them with a stop point option, a third with a (never firing) suicide trigger written in a section other than that of its target. Every pool addition and every launch is checked against the model point sets. Distinct = distinct (program, schedule digest); non-trivial = some instance was pooled on demand.')
ASSUMPTIONS = [
    'jobs, polls, submissions, message transport and the clock are simulated',
    'reference model / invariants cover the generated workflow sub-language',
]
TIERS = {
    'quick': {'n': 1000, 'budget_s': 420, 'chunk': 10},
    'thorough': {'n': 20000, 'budget_s': 3000, 'chunk': 25},
}
EXPECTED_PROBES = ['pooled_on_demand', 'offset_child_off_sequence', 'stop_point_set']


def make_params(seed, tier):
    return {'seed': seed}

KNOBS = {'p_offset': 0.5, 'p_future': 0.12, 'n_sections': (2, 3),
         'span': (3, 6)}


def prog_hook(prog, rng):
    if rng.random() < 0.5 and prog.fcp - prog.icp >= 2:
        prog.stop = rng.randint(prog.icp, prog.fcp - 1)
    # a third of the cases: a suicide trigger written in a section other
    # than the target's own (it must not give the target that section's
    # recurrence). It hangs on :submit-fail of a task whose submissions
    # never fail in this workload, so it never fires and the model need
    # not know about it.  (separate stream)
    import random
    from ..gen import atoms
    r2 = random.Random(repr(rng.getstate()[1][:4]))
    if r2.random() >= 0.33 or len(prog.sections) < 2:
        return
    used = {a.task for s in prog.sections for e, _t in s.lines
            if e is not None for a in atoms(e)
            if a.output in ('submit-failed', 'submitted')}
    cands = []
    for s in prog.sections:
        here = {t for _e, tg in s.lines for t in tg}
        for c in sorted(here - used):
            if prog.tasks[c].submit_retries:
                continue
            for b in sorted(set(prog.tasks) - here):
                in_s = any(b == a.task and a.kind == 'rel' and a.off == 0
                           for e, _t in s.lines if e is not None
                           for a in atoms(e))
                if not in_s and b != c:
                    cands.append((s, c, b))
    if cands:
        s, c, b = cands[r2.randrange(len(cands))]
        s.raw_lines.append(f'{c}:submit-fail? => !{b}')
        prog.suicide_line = (s.heading, c, b)


def run(params):
    return generic_run(PID, params, knobs=KNOBS, policy='complete',
                       prog_hook=prog_hook, probe_key='pooled_on_demand')
