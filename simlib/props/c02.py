"""C02 No double run; retry accounting (engine E1, exploration). See DESIGN.md section 7."""
from .common import (
    generic_run, FinalDbMonitor, launched_instances, reload_monitors)

PID = 'C02'
ENGINE = 'E1'
LEVEL = 'exploration'
RULE = ('One case = generated workflow with execution/submission retry delays (N,M in 0..2) + an outcome plan with failing, submit-failing, vanishing jobs and jobs that are accepted by the job runner but lost before they start (found by polling) + a seeded schedule (delay/dup/reorder; a third of runs add message loss and poll failures). A share of the cases reloads the unchanged definition once in mid-run. Distinct = distinct (program, schedule digest); non-trivial = some instance was submitted more than once (a retry actually ran).')
ASSUMPTIONS = [
    'jobs, polls, submissions, message transport and the clock are simulated',
    'reference model / invariants cover the generated workflow sub-language',
]
TIERS = {
    'quick': {'n': 1000, 'budget_s': 420, 'chunk': 10},
    'thorough': {'n': 20000, 'budget_s': 3000, 'chunk': 25},
}
EXPECTED_PROBES = ['retry_ran', 'final_failure_after_retries', 'stale_submit_message']


def make_params(seed, tier):
    return {'seed': seed}

KNOBS = {'p_retries': 0.7, 'p_submit_retries': 0.4, 'p_optional': 0.4}


def end_check(res, mode):
    prog, plan = res.prog, res.plan
    launched = launched_instances(res)
    for (t, p), subs in launched.items():
        task = prog.tasks[t]
        cap = (task.exec_retries + 1) * (task.submit_retries + 1)
        if len(subs) > cap:
            res.violate('too_many_submissions', {
                'instance': prog.iid(t, p), 'submissions': subs, 'cap': cap})
        if mode != 'lossy' and len(subs) != plan.n_submissions(t, p):
            res.violate('submission_count_differs_from_plan', {
                'instance': prog.iid(t, p), 'submissions': subs,
                'planned': plan.seq(t, p)})
        if len(subs) > 1:
            res.sim.probe('retry_ran')
    # failed / submit-failed completed only when no retry remains
    for (name, cycle), outs in res.db_outputs.items():
        if name not in prog.tasks:
            continue
        task = prog.tasks[name]
        jobs = [j for k, j in res.world.jobs.items()
                if k[1] == name and k[0] == cycle]
        n_exec_fail = sum(1 for j in jobs if j.submit_ok and j.final in
                          ('failed', 'vanish') or j.killed_at is not None)
        n_sub_fail = sum(1 for j in jobs if not j.submit_ok
                         or j.final == 'subvanish')
        if 'failed' in outs:
            res.sim.probe('final_failure_after_retries')
            if n_exec_fail < task.exec_retries + 1:
                res.violate('failed_output_with_retries_left', {
                    'instance': f'{cycle}/{name}', 'failed_jobs': n_exec_fail,
                    'execution_retries': task.exec_retries})
        if 'submit-failed' in outs and n_sub_fail < task.submit_retries + 1:
            res.violate('submit_failed_output_with_retries_left', {
                'instance': f'{cycle}/{name}', 'submit_failures': n_sub_fail,
                'submission_retries': task.submit_retries})


def run(params):
    return generic_run(PID, params, knobs=KNOBS, policy='any',
                       plan_kw={'p_fail': 0.5, 'p_subfail': 0.5,
                                'p_vanish': 0.2, 'p_subvanish': 0.4},
                       monitors=[FinalDbMonitor()] + reload_monitors(
                           params['seed'], 'c02'),
                       end_check=end_check, probe_key='retry_ran')
