"""C20 Crash-restart neither loses nor duplicates work (engine E1,
fault enumeration over crash points)."""
import json
import os
import random
import sqlite3

from ..boot import CLOCK
from ..core import derive_seed
from ..e1 import Case, Monitor, run_case
from ..monitors import InvariantMonitor
from .common import (
    FinalDbMonitor, LaunchMonitor, RATES_NONE, base_stats,
    launched_instances, sample_of, swarm_gkw, unexpected_stop, viol_dicts,
    verdict_of,
)

PID = 'C20'
ENGINE = 'E1'
LEVEL = 'fault_enumeration'
LEVEL_TEXT = (
    'Per generated workflow the scheduler is killed after the k-th durable '
    'effect (SQLite statement/commit on the private DB, subprocess launch) '
    'for a stratified set of k (quick) or every k (thorough, '
    'exhaustive in that dimension), restarted from the database, and the '
    'continued run is compared with the uninterrupted run. Programs and '
    'schedules are sampled.')
RULE = (
    'One evaluation = one (generated workflow, crash point k) pair: the run '
    'is killed (SimCrash: memory lost, SQLite handles closed without commit) '
    'at durable effect k, restarted after a seeded downtime while jobs keep '
    'running, and compared with the uninterrupted run of the same seed: same '
    'instances, same final recorded outputs, no instance run again, no '
    '(task, point, submit number) launched twice, restart succeeds. '
    'Distinct = distinct (program, k); non-trivial = the crash fell after '
    'the first job launch and before the last (work was in flight).')
ASSUMPTIONS = [
    'crash = process death with the OS alive: un-committed SQLite work is '
    'rolled back, files written so far survive',
    'jobs keep running while the scheduler is down; messages sent meanwhile '
    'are lost; the restart poll is answered truthfully',
    'a jobs-submit child that was already started survives the crash (its '
    'jobs exist)',
]
EXHAUSTIVE_DIMS = ['thorough tier: every durable-effect index k of each '
                   'sampled program (programs and schedules are sampled)']
TIERS = {
    'quick': {'n': 110, 'budget_s': 500, 'chunk': 2, 'case_timeout': 300},
    'thorough': {'n': 64, 'budget_s': 3300, 'chunk': 1, 'case_timeout': 1500},
}
EXPECTED_PROBES = ['crash_in_open_transaction', 'crash_after_submit_launch',
                   'crash_with_active_jobs', 'restart_reloaded_preparing']
KNOBS = {'n_tasks': (2, 4), 'span': (2, 3), 'p_retries': 0.3,
         'p_runahead': 0.4, 'max_lines': 3}


def make_params(seed, tier):
    return {'seed': seed, 'tier': tier}


def read_db(run_dir):
    path = os.path.join(run_dir, '.service', 'db')
    out = {'exists': os.path.exists(path), 'params': {}, 'pool': {},
           'states': {}, 'jobs': set(), 'outputs': {}}
    if not out['exists']:
        return out
    con = sqlite3.connect(f'file:{path}?mode=ro', uri=True)
    try:
        def q(sql):
            try:
                return con.execute(sql).fetchall()
            except sqlite3.Error:
                return []
        out['params'] = dict(q('SELECT key, value FROM workflow_params'))
        for c, n, f, st in q('SELECT cycle, name, flow_nums, status FROM task_pool'):
            out['pool'][(c, n)] = st
        for c, n, f, st, sn in q('SELECT cycle, name, flow_nums, status, '
                                 'submit_num FROM task_states'):
            out['states'][(c, n)] = (st, sn)
        for c, n, sn, ss in q('SELECT cycle, name, submit_num, '
                              'submit_status FROM task_jobs'):
            if ss is not None:
                # (a row without submit_status is a submission whose result
                # had not been recorded yet)
                out['jobs'].add((c, n, sn))
        for c, n, o in q('SELECT cycle, name, outputs FROM task_outputs'):
            try:
                d = json.loads(o) if o else {}
            except ValueError:
                d = {}
            out['outputs'].setdefault((n, c), set()).update(
                d.keys() if isinstance(d, dict) else d)
    finally:
        con.close()
    return out


FINALS = ('succeeded', 'failed', 'submit-failed', 'expired')


def crash_predicates(db, world_jobs):
    """Structural predicates over the durable state at the crash instant."""
    f3 = db['exists'] and 'uuid_str' not in db['params']
    unrecorded = {k for k in world_jobs if k not in db['jobs']}
    inconsistent = set()
    for key, st in db['pool'].items():
        s = db['states'].get(key)
        if s is None or s[0] != st:
            inconsistent.add(key)
    for key, (st, sn) in db['states'].items():
        if st not in FINALS and key not in db['pool']:
            inconsistent.add(key)
    # pool/state rows still say preparing although the result of that very
    # submission has been committed to task_jobs by an early commit
    for key, st in db['pool'].items():
        s = db['states'].get(key)
        if st == 'preparing' and s and (key[0], key[1], s[1]) in db['jobs']:
            inconsistent.add(key)
    return {'F3': f3, 'unrecorded': unrecorded, 'inconsistent': inconsistent}


class CrashLifecycle(Monitor):
    def __init__(self, crash_points, downtimes):
        self.crash_points = list(crash_points)
        self.downtimes = downtimes
        self.crash_states = []

    def attach(self, h, res, case):
        self.h = h

    def lifecycle(self, h, res):
        cps = list(self.crash_points)
        for guard in range(6):
            if cps:
                k = cps.pop(0)
                # first crash: absolute effect index; later ones: relative
                # to the start of the recovery
                h.world.crash_at = k if guard == 0 else h.world.effects + k
            else:
                h.world.crash_at = None
            info = h.run_once()
            res.stops.append(info.reason)
            if info.reason == 'crash':
                db = read_db(h.run_dir)
                wj = {(k[0], k[1], k[2]) for k in h.world.jobs}
                st = crash_predicates(db, wj)
                st['t'] = CLOCK.t
                st['db_outputs'] = db['outputs']
                now = CLOCK.t
                st['active_jobs'] = sum(
                    1 for j in h.world.jobs.values() if j.active(now))
                self.crash_states.append(st)
                if st['active_jobs']:
                    h.sim.probe('crash_with_active_jobs')
                if st['unrecorded']:
                    h.sim.probe('crash_after_submit_launch')
                if any(s == 'preparing' for s in db['pool'].values()):
                    h.sim.probe('restart_reloaded_preparing')
                h.world.crash_at = None
                h.world.downtime(self.downtimes[guard % len(self.downtimes)])
                continue
            break


def downstream(model, roots):
    seen = set(roots)
    todo = list(roots)
    while todo:
        t, p = todo.pop()
        for o in ('submitted', 'started', 'succeeded', 'failed',
                  'submit-failed', 'expired') + tuple(
                      model.prog.tasks[t].customs if t in model.prog.tasks else ()):
            for c in model.children(t, p, o):
                if c not in seen:
                    seen.add(c)
                    todo.append(c)
        # parentless chain / sequential successors
        if t in model._valid:
            nxt = [q for q in sorted(model._valid[t]) if q > p]
            for q in nxt:
                if (t, q) not in seen:
                    seen.add((t, q))
                    todo.append((t, q))
    return seen


def compare(base, res, cl, prog, model):
    """Sub-rule violations of one crash run, each with its predicates."""
    out = []
    lb, lr = launched_instances(base), launched_instances(res)
    # union of crash-instant predicates
    f3 = any(s['F3'] for s in cl.crash_states)
    unrec = set().union(*[s['unrecorded'] for s in cl.crash_states]) if cl.crash_states else set()
    incons = set().union(*[s['inconsistent'] for s in cl.crash_states]) if cl.crash_states else set()
    incons_i = set()
    for c, n in incons:
        try:
            incons_i.add((n, prog.ppoint(c)))
        except Exception:
            pass
    unrec_i = {(k[1], prog.ppoint(k[0])) for k in unrec}
    f1_zone = downstream(model, incons_i) if incons_i else set()
    f2_zone = downstream(model, unrec_i) if unrec_i else set()

    # F4 roots: instances that lost only custom outputs which were not yet
    # durable at any crash instant
    f4_roots = set()
    for (n, c), a in base.db_outputs.items():
        if n not in prog.tasks or not cl.crash_states:
            continue
        # custom outputs of the uninterrupted run that were not durable at
        # a crash instant (whether or not a poll recorded them later)
        late_o = set(a) & set(prog.tasks[n].customs)
        late_o = {o for o in late_o if any(
            o not in s['db_outputs'].get((n, c), set())
            for s in cl.crash_states)}
        if late_o:
            try:
                f4_roots.add((n, prog.ppoint(c)))
            except Exception:
                pass
    f4_zone = downstream(model, f4_roots) if f4_roots else set()

    def partition(insts):
        """Split instances by the first known class that explains each."""
        parts = {}
        for i in insts:
            if i in f1_zone:
                k = 'F1_stale_pool_table'
            elif i in f2_zone:
                k = 'F2_launch_not_recorded'
            elif i in f4_zone:
                k = 'F4_uncommitted_custom_output'
            else:
                k = None
            parts.setdefault(k, set()).add(i)
        return parts

    def preds_for(insts, allow_f2=True):
        p = []
        if insts and all(i in f4_zone for i in insts):
            p.append('F4_uncommitted_custom_output')
        if insts and all(i in f1_zone for i in insts):
            p.append('F1_stale_pool_table')
        if allow_f2 and insts and all(i in f2_zone for i in insts):
            p.append('F2_launch_not_recorded')
        return p

    # restart failed?
    last = res.stops[-1]
    if unexpected_stop(last) and not unexpected_stop(base.stops[-1]):
        out.append(('restart_failed', {'stops': res.stops,
                                       'log_tail': res.log_tail[-5:]},
                    ['F3_first_transaction'] if f3 else []))
        return out
    # duplicates of one (task, point, submit number)
    seen = {}
    for t, key in res.launches:
        seen[key] = seen.get(key, 0) + 1
    dups = [k for k, n in seen.items() if n > 1]
    if dups:
        parts = {}
        for k in dups:
            if tuple(k) in unrec:
                c = 'F2_launch_not_recorded'
            elif (k[1], prog.ppoint(k[0])) in f1_zone:
                c = 'F1_stale_pool_table'
            else:
                c = None
            parts.setdefault(c, []).append(k)
        for c, ks in parts.items():
            out.append(('job_launched_twice_same_submit_number', {
                'keys': [list(k) for k in ks]}, [c] if c else []))
    lost = set(lb) - set(lr)
    for c, part in partition(lost).items():
        out.append(('instance_lost', {
            'instances': sorted(prog.iid(*i) for i in part)},
            [c] if c else []))
    extra = set(lr) - set(lb)
    for c, part in partition(extra).items():
        out.append(('instance_ran_only_after_crash', {
            'instances': sorted(prog.iid(*i) for i in part)},
            [c] if c else []))
    rerun = {i for i in set(lb) & set(lr)
             if len(set(lr[i])) > len(set(lb[i]))}
    for c, part in partition(rerun).items():
        out.append(('instance_run_again', {
            'instances': {prog.iid(*i): [lb[i], lr[i]] for i in sorted(part)}},
            [c] if c else []))
    if not lost and not extra:
        diffs = {}
        for k in sorted(set(base.db_outputs) | set(res.db_outputs)):
            a, b = base.db_outputs.get(k, set()), res.db_outputs.get(k, set())
            if a != b:
                diffs[k] = (sorted(a), sorted(b))
        if diffs:
            insts = set()
            for (n, c) in diffs:
                try:
                    insts.add((n, prog.ppoint(c)))
                except Exception:
                    pass
            pr = preds_for(insts)
            # F4: a custom output whose message had been processed but not
            # yet committed when the scheduler died
            f4 = bool(cl.crash_states)
            for (n, c), (a, b) in diffs.items():
                lost_o = set(a) - set(b)
                customs = set(prog.tasks[n].customs) if n in prog.tasks else set()
                if set(b) - set(a) or not lost_o or not lost_o <= customs:
                    f4 = False
                    break
                if any(lost_o & s['db_outputs'].get((n, c), set())
                       for s in cl.crash_states):
                    f4 = False
                    break
            if f4:
                pr.append('F4_uncommitted_custom_output')
            out.append(('final_outputs_differ', {
                'base_vs_crashed': {f'{c}/{n}': v for (n, c), v in
                                    list(diffs.items())[:6]}}, pr))
    return out


def choose_crash_points(kinds, rng, tier, n_quick=12):
    """kinds: list of (kind, detail) per effect index (1-based)."""
    n = len(kinds)
    if tier == 'thorough':
        return list(range(1, n + 1))
    pts = set()
    # stratified: thirds
    for a, b in ((1, n // 3), (n // 3 + 1, 2 * n // 3), (2 * n // 3 + 1, n)):
        if b >= a:
            pts.add(rng.randint(a, b))
    submits = [i + 1 for i, (k, d) in enumerate(kinds)
               if k == 'procopen' and d == 'jobs-submit']
    commits = [i + 1 for i, (k, d) in enumerate(kinds) if d == 'commit']
    inside = [i + 1 for i, (k, d) in enumerate(kinds)
              if k == 'db' and d in ('executemany', 'execute')]
    for pool, m in ((submits, 3), (commits, 3), (inside, 3)):
        for _ in range(m):
            if pool:
                pts.add(rng.choice(pool))
    for s in rng.sample(submits, min(2, len(submits))):
        pts.add(min(n, s + 1))      # right after a launch
    return sorted(pts)[:n_quick + 4]


def run(params):
    seed = params['seed']
    tier = params.get('tier', 'quick')
    rng = random.Random(derive_seed(seed, 'swarm'))
    gkw = swarm_gkw(rng)

    def mkcase():
        c = Case(seed, knobs=KNOBS, rates=RATES_NONE, policy='any',
                 plan_kw={'p_fail': 0.3}, gkw=gkw)
        c.build()
        return c
    c0 = mkcase()

    def rec(h, res, case):
        h.world.effect_log = []
    base = run_case(c0, monitors=[LaunchMonitor(), FinalDbMonitor()], setup=rec)
    if base.error:
        return {'error': 'base run: ' + base.error, 'violations': [], 'stats': {}}
    kinds = list(base.world.effect_log)
    if params.get('crash_points'):
        points = params['crash_points']
    else:
        points = [[k] for k in choose_crash_points(kinds, rng, tier)]
        if tier == 'quick' and len(points) > 2:
            # one double crash: second crash early in the recovery
            points.append([points[len(points) // 2][0], rng.randint(5, 60)])
    violations = []
    agg = None
    nontriv = []
    first_launch = next((i + 1 for i, (k, d) in enumerate(kinds)
                         if d == 'jobs-submit'), None)
    last_launch = max((i + 1 for i, (k, d) in enumerate(kinds)
                       if d == 'jobs-submit'), default=None)
    n_runs = 0
    sims = 0.0
    iters = 0
    sample = None
    for cps in points:
        c1 = mkcase()
        drng = random.Random(derive_seed(seed, 'downtime', *cps))
        cl = CrashLifecycle(cps, [drng.choice([0.0, 2.0, 8.0, 30.0])
                                  for _ in range(3)])
        res = run_case(c1, monitors=[LaunchMonitor(check_prereqs=False),
                                     cl, FinalDbMonitor()],
                       lifecycle=cl.lifecycle)
        if res.error:
            return {'error': f'crash run {cps}: ' + res.error,
                    'violations': [], 'stats': {}}
        n_runs += 1
        sims += res.sim_seconds
        iters += res.iterations
        if agg is None:
            agg = res
        else:
            for k, v in res.sim.faults.items():
                agg.sim.faults[k] = agg.sim.faults.get(k, 0) + v
            for k, v in res.sim.probes.items():
                agg.sim.probes[k] = agg.sim.probes.get(k, 0) + v
        k0 = cps[0]
        if k0 - 1 < len(kinds) and kinds[k0 - 1][0] == 'db' and (
                kinds[k0 - 1][1] != 'commit'):
            agg.sim.probe('crash_in_open_transaction')
        if first_launch and last_launch and first_launch < k0 <= last_launch:
            nontriv.append(f'{seed}:{cps}')
        for rule, detail, preds in compare(base, res, cl, res.prog, res.model):
            detail = dict(detail)
            detail['crash_points'] = cps
            detail['crash_effect'] = [list(kinds[k - 1]) if k - 1 < len(kinds)
                                      else None for k in cps[:1]]
            violations.append({
                'rule': rule, 'detail': detail, 'property': PID,
                'predicates': preds, 'choices': None,
                'trace': res.sim.events[-50:],
                'replay_params': {'seed': seed, 'tier': tier,
                                  'crash_points': [cps]}})
        if sample is None and len(res.stops) > 1:
            sample = sample_of(res, {'crash_points': cps,
                                     'effects_in_base_run': len(kinds)})
    st = base_stats(agg, None)
    st['nontrivial'] = nontriv
    st['sim_seconds'] = sims
    st['iterations'] = iters
    st['digests'] = [f'{seed}:{n_runs}']
    st['extra'] = {'crash_points_enumerated': n_runs,
                   'durable_effects_in_base_runs': len(kinds),
                   'programs': 1}
    return {'violations': violations, 'stats': st, 'sample': sample,
            'evaluations': n_runs}
