"""C25 The published data store reflects the task pool (engine E1)."""
import random
from copy import deepcopy

from ..boot import CLOCK
from ..core import derive_seed
from ..e1 import Case, CommandDriver, Monitor, run_case
from ..monitors import InvariantMonitor, _wrap
from .common import (
    LaunchMonitor, RATES_NONE, RATES_SCHED, base_stats, sample_of, swarm_gkw,
    unexpected_stop, viol_dicts,
)

PID = 'C25'
ENGINE = 'E1'
LEVEL = 'exploration'
RULE = (
    'One case = generated workflow run under a seeded schedule with a seeded '
    'mix of operator commands (hold, release, set hold point, pause/resume, '
    'stop cycle point, set outputs, trigger, remove, set_graph_window_extent, '
    'reload). After every DataStoreMgr.update_data_structure() each pooled '
    'task is compared with its task-proxy element in the scheduler store '
    '(status, held/queued/runahead, flow numbers, completed outputs, '
    'prerequisite satisfaction). A simulated client subscribes at a seeded '
    'publication boundary: it takes get_entire_workflow() and then applies '
    'every published "all" batch (serialised and re-parsed) with the '
    'repo\'s own apply_delta, clearing an element type on a reloaded '
    'sub-delta; at the end of each iteration with nothing pending the client '
    'store is compared element-wise with the scheduler store and the '
    'published checksums are recomputed over the client store. Distinct = '
    'distinct (program, command history, schedule digest); non-trivial = at '
    'least 5 delta batches were applied by the client and one command was '
    'actioned.')
ASSUMPTIONS = ['the client applies the sub-deltas of a batch in the order in '
               'which the scheduler publishes the per-topic messages; '
               'transport is loss-free and in order']
TIERS = {
    'quick': {'n': 500, 'budget_s': 420, 'chunk': 8},
    'thorough': {'n': 10000, 'budget_s': 3000, 'chunk': 20},
}
EXPECTED_PROBES = ['client_batches_applied', 'client_store_compared',
                   'pool_vs_store_compared', 'reload_delta_seen']
KNOBS = {'span': (3, 5), 'p_runahead': 0.4, 'n_tasks': (2, 5), 'p_abs': 0.15,
         'p_family': 0.3,
         'p_retries': 0.3}


def make_params(seed, tier):
    return {'seed': seed}


class Enum_:
    def __init__(self, value):
        self.value = value

    def __repr__(self):
        return str(self.value)


def gen_commands(rng, prog, model, n_iters, with_reload=True):
    names = list(prog.tasks)
    valid = [(t, p) for t in names for p in sorted(model._valid[t])]
    cmds = []
    for _ in range(rng.randint(1, 5)):
        it = rng.randint(1, max(2, n_iters))
        k = rng.choice(['hold', 'release', 'set_hold_point',
                        'release_hold_point', 'pause', 'resume', 'stopcp',
                        'set', 'trigger', 'remove', 'extent', 'reload',
                        'trigger_new', 'set_new', 'stop_flow', 'remove_flow'])
        slot = rng.randint(0, 1)
        ids = [prog.iid(*i) for i in rng.sample(
            valid, min(len(valid), rng.randint(1, 2)))]
        if k in ('hold', 'release'):
            c = {'name': k, 'kwargs': {'tasks': ids}}
        elif k == 'set_hold_point':
            c = {'name': k, 'kwargs': {'point': prog.pstr(
                rng.randint(prog.icp, prog.fcp))}}
        elif k in ('release_hold_point', 'pause', 'resume'):
            c = {'name': k, 'kwargs': {}}
        elif k == 'stopcp':
            c = {'name': 'stop', 'kwargs': {'mode': None, 'cycle_point': prog.pstr(
                rng.randint(prog.icp, prog.fcp))}}
        elif k == 'set':
            c = {'name': 'set', 'kwargs': {
                'tasks': ids, 'flow': [],
                'outputs': rng.choice([None, ['succeeded'], ['started']])}}
        elif k == 'trigger':
            c = {'name': 'force_trigger_tasks', 'kwargs': {
                'tasks': ids, 'flow': []}}
        elif k == 'remove':
            c = {'name': 'remove_tasks', 'kwargs': {'tasks': ids, 'flow': []}}
        elif k == 'trigger_new':
            c = {'name': 'force_trigger_tasks', 'kwargs': {
                'tasks': ids, 'flow': ['new']}}
        elif k == 'set_new':
            c = {'name': 'set', 'kwargs': {
                'tasks': ids, 'flow': ['new'], 'prerequisites': ['all']}}
        elif k == 'stop_flow':
            c = {'name': 'stop', 'kwargs': {
                'mode': None, 'flow_num': rng.randint(1, 3)}}
        elif k == 'remove_flow':
            c = {'name': 'remove_tasks', 'kwargs': {
                'tasks': ids, 'flow': [str(rng.randint(1, 2))]}}
        elif k == 'extent':
            c = {'name': 'set_graph_window_extent', 'kwargs': {
                'n_edge_distance': rng.randint(0, 3)}}
        else:
            if not with_reload:
                continue
            c = {'name': 'reload_workflow', 'kwargs': {}}
        c.update({'iter': it, 'slot': slot})
        cmds.append(c)
    cmds.sort(key=lambda c: (c['iter'], c['slot']))
    # always end un-paused / un-held so that the run can finish
    cmds.append({'at_time': 80.0, 'name': 'resume', 'kwargs': {}})
    cmds.append({'at_time': 80.0, 'name': 'release_hold_point', 'kwargs': {}})
    return cmds


def pb_diff(a, b):
    names = {f.name for f, _ in a.ListFields()} | {
        f.name for f, _ in b.ListFields()}
    return sorted(n for n in names
                  if str(getattr(a, n)) != str(getattr(b, n)))[:8]


_CUR = None
_DONE = False


def install():
    global _DONE
    if _DONE:
        return
    from cylc.flow.data_store_mgr import DataStoreMgr

    def after(c, s, a, k, r, t):
        if _CUR is not None:
            _CUR.after_update(s)
    _wrap(DataStoreMgr, 'update_data_structure', after=after)
    _DONE = True


class StoreWatch(Monitor):
    def __init__(self, subscribe_at):
        self.subscribe_at = subscribe_at
        self.client = None
        self.n_pub = 0
        self.n_applied = 0
        self.last_checksums = {}
        self.serial = 0
        self.proxies = {}
        self.replaced = set()

    def attach(self, h, res, case):
        global _CUR
        install()
        _CUR = self
        self.res = res
        self.h = h
        h.publish_hooks.append(self.on_publish)
        h.iter_hooks.append(self.iter_end)

    def finish(self, h, res, case):
        global _CUR
        _CUR = None

    # -- pool vs scheduler store ------------------------------------------
    def after_update(self, dsm):
        from cylc.flow.data_store_mgr import TASK_PROXIES
        from cylc.flow.util import serialise_set
        schd = dsm.schd
        if not hasattr(schd, 'pool'):
            return
        data = dsm.data[dsm.workflow_id]
        self.res.sim.probe('pool_vs_store_compared')
        for itask in schd.pool.get_tasks():
            if self.proxies.setdefault(itask.identity, itask) is not itask:
                old = self.proxies[itask.identity]
                if getattr(old, 'removed', False) and old.submit_num > 0:
                    # removed by command with a job (or job preparation) live
                    self.replaced.add(itask.identity)
                self.proxies[itask.identity] = itask
            tp_id = dsm.id_.duplicate(itask.tokens).id
            tp = data[TASK_PROXIES].get(tp_id)
            if tp is None:
                self.res.violate('pooled_task_missing_from_store', {
                    'task': itask.identity})
                continue
            st = itask.state
            diffs = {}
            if tp.state != st.status:
                diffs['state'] = [tp.state, st.status]
            for f in ('is_held', 'is_queued', 'is_runahead'):
                if bool(getattr(tp, f)) != bool(getattr(st, f)):
                    diffs[f] = [bool(getattr(tp, f)), bool(getattr(st, f))]
            if tp.flow_nums != serialise_set(itask.flow_nums):
                diffs['flow_nums'] = [tp.flow_nums,
                                      serialise_set(itask.flow_nums)]
            outs_store = {k for k, o in tp.outputs.items() if o.satisfied}
            outs_pool = {lbl for lbl, _, done in st.outputs if done}
            if outs_store != outs_pool:
                diffs['outputs'] = [sorted(outs_store), sorted(outs_pool)]
            sat_store = sorted(
                (c.task_proxy, c.req if hasattr(c, 'req') else '', bool(c.satisfied))
                for p in tp.prerequisites for c in p.conditions)
            sat_pool = sorted(
                (f'{k.point}/{k.task}', '', bool(v))
                for p in st.prerequisites for k, v in p.items())
            if [x[2] for x in sat_store] != [x[2] for x in sat_pool] and (
                    sorted(x[2] for x in sat_store) !=
                    sorted(x[2] for x in sat_pool)):
                diffs['prerequisites'] = [sat_store, sat_pool]
            if diffs:
                preds = []
                cyc, name = itask.identity.split('/')
                if itask.identity in self.replaced and (
                        set(diffs) <= {'state', 'is_held', 'outputs',
                                       'is_queued', 'is_runahead'}):
                    # an earlier proxy of this task was removed by command
                    # while it had a job: the submit/kill/poll callbacks of
                    # that job still write to the store under the same ID
                    preds.append('orphaned_job_of_replaced_proxy')
                if set(diffs) <= {'is_held', 'is_runahead', 'is_queued'} and any(
                        d[3] in ('force_trigger_tasks', 'set')
                        and itask.identity in d[4].get('tasks', [])
                        and (d[3] == 'force_trigger_tasks' or (
                            d[4].get('flow') and d[4]['flow'] != ['none']
                            and itask.identity in d[6]))
                        for d in getattr(self.res, 'commands_done', [])):
                    # a trigger/set with --flow=... on a task that was already
                    # pooled builds a second proxy for the same ID (held /
                    # runahead-limited as a fresh spawn) whose state deltas
                    # reach the store before its flows are merged into the
                    # pooled proxy and it is discarded
                    preds.append('flow_command_on_pooled_task_left_shadow_state')
                cyc_, name_ = itask.identity.split('/')
                if not preds and set(diffs) <= {
                        'state', 'is_held', 'outputs', 'is_queued',
                        'is_runahead'} and any(
                        k[0] == cyc_ and k[1] == name_
                        for k in self.h.world.dup_launches):
                    # two jobs were launched under one job ID for this task:
                    # one of them belongs to a proxy that has left the pool
                    preds.append('orphaned_job_of_replaced_proxy')
                if not preds and any(
                        d[3] == 'force_trigger_tasks' and d[4].get('flow')
                        and d[4]['flow'] != ['none']
                        and itask.identity in d[4].get('tasks', [])
                        and itask.identity in d[6]
                        for d in getattr(self.res, 'commands_done', [])):
                    # the second proxy built by the flow trigger was not only
                    # reported but run: two jobs with one submit number, the
                    # store following the one that is not in the pool
                    preds.append('flow_trigger_on_pooled_task_ran_shadow_proxy')
                self.res.violate('store_differs_from_pool', {
                    'task': itask.identity, 'store_vs_pool': diffs,
                    'predicates': preds})

    # -- simulated client ----------------------------------------------------
    def on_publish(self, h, item):
        from cylc.flow.data_store_mgr import (
            ALL_DELTAS, DATA_TEMPLATE, DELTAS_MAP, WORKFLOW, apply_delta,
        )
        self.n_pub += 1
        schd = h.schd
        dsm = schd.data_store_mgr
        if self.client is None:
            if self.n_pub < self.subscribe_at:
                return
            # subscribe: take the full snapshot as served to new clients
            # *after* this batch has been applied scheduler-side
            entire = type(dsm.get_entire_workflow())()
            entire.ParseFromString(dsm.get_entire_workflow().SerializeToString())
            data = deepcopy(DATA_TEMPLATE)
            data[WORKFLOW].CopyFrom(entire.workflow)
            for key, fld in (('tasks', 'tasks'), ('task_proxies', 'task_proxies'),
                             ('jobs', 'jobs'), ('families', 'families'),
                             ('family_proxies', 'family_proxies'),
                             ('edges', 'edges')):
                for e in getattr(entire, fld):
                    data[key][e.id] = e
            self.client = data
            self.times = {}
            return
        alld = [i for i in item if i[0] == ALL_DELTAS.encode()]
        if not alld:
            return
        msg = DELTAS_MAP[ALL_DELTAS]()
        msg.ParseFromString(alld[0][1].SerializeToString())
        self.n_applied += 1
        self.res.sim.probe('client_batches_applied')
        # sub-deltas are applied in the order in which the scheduler itself
        # publishes the per-topic messages of this batch (edges first).
        # NOTE: applying them in protobuf field order instead (task_proxies
        # before edges) gives a different result when one batch both adds
        # and prunes an edge -- observed on the unchanged tree, see DESIGN.
        order = [i[0].decode() for i in item if i[0] != ALL_DELTAS.encode()]
        subs = {f.name: sub for f, sub in msg.ListFields()}
        for key in order + [k for k in subs if k not in order]:
            if key not in subs:
                continue
            sub = subs[key]
            t = getattr(sub, 'time', 0.0)
            if t < self.times.get(key, 0.0):
                continue    # older than what we hold for this type
            self.times[key] = t
            if getattr(sub, 'reloaded', False):
                self.res.sim.probe('reload_delta_seen')
                if key == WORKFLOW:
                    self.client[key].Clear()
                else:
                    self.client[key].clear()
            apply_delta(key, sub, self.client)
            if hasattr(sub, 'checksum') and sub.checksum:
                self.last_checksums[key] = sub.checksum

    def iter_end(self, h):
        from cylc.flow.data_store_mgr import (
            EDGES, WORKFLOW, generate_checksum,
        )
        if self.client is None:
            return
        schd = h.schd
        dsm = schd.data_store_mgr
        if dsm.publish_pending or dsm.updates_pending:
            return
        if any(d.ListFields() for d in dsm.deltas.values()):
            return
        data = dsm.data[dsm.workflow_id]
        self.res.sim.probe('client_store_compared')
        for key in data:
            if key == WORKFLOW:
                a, b = data[key], self.client[key]
                if a.SerializeToString(deterministic=True) != (
                        b.SerializeToString(deterministic=True)):
                    diff = pb_diff(a, b)
                    self.res.violate('client_workflow_element_differs', {
                        'fields': diff,
                        'scheduler': {n: str(getattr(a, n))[:120] for n in diff[:3]},
                        'client': {n: str(getattr(b, n))[:120] for n in diff[:3]}})
                continue
            sa, sb = set(data[key]), set(self.client[key])
            if sa != sb:
                self.res.violate('client_store_membership_differs', {
                    'type': key, 'only_scheduler': sorted(sa - sb)[:5],
                    'only_client': sorted(sb - sa)[:5]})
                continue
            for eid in sa:
                if data[key][eid].SerializeToString(deterministic=True) != (
                        self.client[key][eid].SerializeToString(deterministic=True)):
                    a, b = data[key][eid], self.client[key][eid]
                    diff = pb_diff(a, b)
                    self.res.violate('client_element_differs', {
                        'type': key, 'id': eid, 'fields': diff,
                        'scheduler': {n: str(getattr(a, n))[:120] for n in diff[:3]},
                        'client': {n: str(getattr(b, n))[:120] for n in diff[:3]}})
                    break
            # checksums
            if key in self.last_checksums:
                s_att = 'id' if key == EDGES else 'stamp'
                mine = generate_checksum(
                    [getattr(e, s_att) for e in self.client[key].values()])
                theirs = generate_checksum(
                    [getattr(e, s_att) for e in data[key].values()])
                if mine != theirs:
                    self.res.violate('client_checksum_differs', {
                        'type': key})


def run(params):
    seed = params['seed']
    rng = random.Random(derive_seed(seed, 'c25'))
    gkw = swarm_gkw(rng)
    case = Case(seed, knobs=KNOBS, rates=[RATES_NONE, RATES_SCHED][seed % 2],
                policy='any', plan_kw={'p_fail': 0.3}, gkw=gkw)
    case.choices = params.get('choices')
    case.build()
    from ..refmodel import Model
    model = Model(case.prog, None)
    cmds = params.get('cmds') or gen_commands(rng, case.prog, model, 25)
    for c in cmds:
        if c['name'] == 'set_graph_window_extent':
            pass
    sw = StoreWatch(rng.randint(1, 12))
    res = run_case(case, monitors=[
        LaunchMonitor(check_prereqs=False), InvariantMonitor(commands=True),
        CommandDriver([dict(c) for c in cmds]), sw])
    if res.error:
        return {'error': res.error, 'violations': [], 'stats': {}}
    if unexpected_stop(res.stops[-1]) and 'inactivity' not in res.stops[-1]:
        res.violate('scheduler_aborted_unexpectedly', {
            'stop': res.stops[-1], 'log_tail': res.log_tail[-6:],
            'property': 'C03'})
    done = getattr(res, 'commands_done', [])
    nontriv = None
    if sw.n_applied >= 5 and done:
        nontriv = [res.prog.render(), [(c.get('iter'), c['name'], str(c['kwargs']))
                                       for c in cmds], res.sim.hexdigest()]
    return {'violations': viol_dicts(res, PID, {}),
            'stats': base_stats(res, nontriv),
            'sample': sample_of(res, {
                'commands': [(c.get('iter'), c['name'], str(c['kwargs']))
                             for c in cmds],
                'client_subscribed_at_publication': sw.subscribe_at,
                'batches_applied_by_client': sw.n_applied})}
