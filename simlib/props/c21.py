"""C21 Database writes are atomic and the public database converges
(engine E2 dbsim: real WorkflowDatabaseManager + CylcWorkflowDAO on real
SQLite files; fault enumeration over statement positions)."""
import hashlib
import os
import random
import shutil
import sqlite3
from types import SimpleNamespace as NS

from .. import boot
from ..boot import CLOCK
from ..core import DBCTL, Seams, SimCrash, derive_seed, jdump

PID = 'C21'
ENGINE = 'E2'
LEVEL = 'fault_enumeration'
LEVEL_TEXT = (
    'For each generated sequence of batches every statement position of the '
    'last batch is failed once with an sqlite3 error and once with a process '
    'crash on the private DB (exhaustive in that dimension), and public-DB '
    'lock patterns are enumerated (all patterns up to length 4, seeded '
    'longer ones); batches themselves are sampled.')
LEVEL_NOTE = (
    'Trusted: SQLite itself (journal rollback on close without commit), the '
    'statement-level fault seam (rundb.sqlite3 proxy) and the lightweight '
    'task stand-ins that feed the put_* API.')
RULE = (
    'One evaluation = one (batch sequence, fault position/pattern) pair. '
    'Batches are built through the manager\'s own put_* API over task_pool, '
    'task_states, task_outputs, task_jobs, task_prerequisites, '
    'broadcast_states/events, tasks_to_hold, workflow_params, workflow_flows,'
    ' xtriggers, abs_outputs. Atomicity: dump(private) after a failure or '
    'crash at statement j equals the dump before the batch; after success it '
    'equals the fault-free reference. Convergence: once public-DB locks stop,'
    ' after one more process_queued_ops()+recover_pub_from_pri() round the '
    'public dump equals the private dump (or the retry counter is still '
    'counting towards the copy-recovery threshold). Public locks come in two '
    'kinds, seeded per pattern: every statement fails (a writer holds the '
    'lock) or only the commit fails (a reader does). Threshold: with '
    'MAX_TRIES lowered to K in 2..4, K locked writes in a row must end with '
    'the private DB copied over the public one. Distinct = distinct '
    '(batch digest, fault position); non-trivial = the failed statement was '
    'not the first of its transaction (earlier statements had to be rolled '
    'back) or the public DB failed on one batch and recovered on a later one.')
ASSUMPTIONS = ['private-DB error surfaces as sqlite3.OperationalError from '
               'executemany/commit; crash = handles closed without commit']
EXHAUSTIVE_DIMS = ['statement position j of the faulted batch (error and '
                   'crash)', 'public lock patterns up to length 4']
TIERS = {
    'quick': {'n': 160, 'budget_s': 400, 'chunk': 4},
    'thorough': {'n': 3000, 'budget_s': 3000, 'chunk': 20},
}
EXPECTED_PROBES = ['pri_fail_mid_transaction', 'pri_crash_mid_transaction',
                   'pub_fail_then_recover', 'pub_merged_retry',
                   'pub_locked_up_to_threshold']


def make_params(seed, tier):
    return {'seed': seed}


# ---------------------------------------------------------------------------
def fake_task(name, point, status='waiting', flows=(1,), submit_num=0,
              outputs=None, held=False, prereqs=None, xtrigs=None):
    outs = dict(outputs or {})
    return NS(
        point=point, tdef=NS(name=name), flow_nums=set(flows),
        flow_wait=False, is_manual_submit=False, transient=False,
        submit_num=submit_num, timeout=None, poll_timer=None, try_timers={},
        is_late=False, get_try_num=lambda: 1,
        state=NS(status=status, is_held=held, time_updated='2020-01-01T00:00:00Z',
                 prerequisites=[dict(p) for p in (prereqs or [])],
                 xtriggers=dict(xtrigs or {}),
                 outputs=NS(get_completed_outputs=lambda: outs)),
    )


def gen_batches(rng):
    """Return list of batches; a batch is a list of op tuples."""
    names = ['a', 'b', 'c_d']
    points = ['1', '2', '3']
    pool = {}            # (name, point) -> dict
    batches = []
    known = set()
    for _ in range(rng.randint(2, 4)):
        ops = []
        for _ in range(rng.randint(1, 7)):
            k = rng.choice(['spawn', 'state', 'outputs', 'job', 'jobupd',
                            'bc_set', 'bc_cancel', 'hold', 'param', 'flow',
                            'xtrig', 'abs', 'remove', 'pool'])
            n, p = rng.choice(names), rng.choice(points)
            if k == 'spawn' and (n, p) not in known:
                known.add((n, p))
                pool[(n, p)] = {'status': 'waiting', 'sn': 0, 'outs': {}}
                ops.append(('spawn', n, p))
            elif k == 'state' and (n, p) in pool:
                st = rng.choice(['preparing', 'submitted', 'running',
                                 'succeeded', 'failed'])
                pool[(n, p)]['status'] = st
                pool[(n, p)]['sn'] += 1 if st == 'preparing' else 0
                ops.append(('state', n, p, st, pool[(n, p)]['sn']))
            elif k == 'outputs' and (n, p) in pool:
                o = rng.choice(['submitted', 'started', 'succeeded', 'x'])
                pool[(n, p)]['outs'][o] = o
                ops.append(('outputs', n, p, dict(pool[(n, p)]['outs'])))
            elif k == 'job' and (n, p) in pool:
                pool[(n, p)]['sn'] = max(1, pool[(n, p)]['sn'])
                key = (n, p, pool[(n, p)]['sn'])
                if ('job',) + key not in known:
                    known.add(('job',) + key)
                    ops.append(('job', n, p, pool[(n, p)]['sn']))
            elif k == 'jobupd' and (n, p) in pool and pool[(n, p)]['sn']:
                ops.append(('jobupd', n, p, pool[(n, p)]['sn'],
                            rng.choice([0, 1])))
            elif k == 'bc_set':
                ops.append(('bc_set', rng.choice(['*', '1', '2']),
                            rng.choice(['root', 'a', 'b']),
                            rng.choice(['script', 'environment']),
                            str(rng.randint(0, 9))))
            elif k == 'bc_cancel':
                ops.append(('bc_cancel', rng.choice(['*', '1', '2']),
                            rng.choice(['root', 'a', 'b']),
                            rng.choice(['script', 'environment'])))
            elif k == 'hold':
                ops.append(('hold', sorted(
                    (rng.choice(names), rng.choice(points))
                    for _ in range(rng.randint(0, 3)))))
            elif k == 'param':
                ops.append(('param', rng.choice(['paused', 'holdcp', 'stopcp']),
                            rng.choice([None, '1', '2', '5'])))
            elif k == 'flow':
                fn = 2 + len([o for b in batches + [ops] for o in b
                              if o[0] == 'flow'])
                ops.append(('flow', fn))
            elif k == 'xtrig':
                sig = f'x{rng.randint(0, 4)}()'
                if ('xt', sig) not in known:
                    known.add(('xt', sig))
                    ops.append(('xtrig', sig))
            elif k == 'abs':
                key = ('abs', p, n)
                if key not in known:
                    known.add(key)
                    ops.append(('abs', p, n))
            elif k == 'remove' and (n, p) in pool:
                del pool[(n, p)]
                ops.append(('remove', n, p))
        # end of iteration: rewrite the task pool table
        ops.append(('pool', [(n, p, d['status'], d['sn'])
                             for (n, p), d in sorted(pool.items())]))
        batches.append(ops)
    return batches


def apply_ops(mgr, ops):
    for op in ops:
        k = op[0]
        if k == 'spawn':
            t = fake_task(op[1], op[2])
            mgr.put_insert_task_states(t)
            mgr.put_insert_task_outputs(t)
        elif k == 'state':
            t = fake_task(op[1], op[2], status=op[3], submit_num=op[4])
            mgr.put_update_task_state(t)
        elif k == 'outputs':
            t = fake_task(op[1], op[2], outputs=op[3])
            mgr.put_update_task_outputs(t)
        elif k == 'job':
            t = fake_task(op[1], op[2], submit_num=op[3])
            mgr.put_insert_task_jobs(t, {
                'flow_nums': '[1]', 'is_manual_submit': False, 'try_num': 1,
                'time_submit': '2020-01-01T00:00:00Z',
                'platform_name': 'localhost', 'job_runner_name': 'background'})
        elif k == 'jobupd':
            t = fake_task(op[1], op[2], submit_num=op[3])
            mgr.put_update_task_jobs(t, {'run_status': op[4]})
        elif k == 'bc_set':
            mgr.put_broadcast([(op[1], op[2], {op[3]: op[4]})])
        elif k == 'bc_cancel':
            mgr.put_broadcast([(op[1], op[2], {op[3]: None})], is_cancel=True)
        elif k == 'hold':
            mgr.put_tasks_to_hold({(n, p) for n, p in op[1]})
        elif k == 'param':
            key = {'paused': mgr.KEY_PAUSED, 'holdcp': mgr.KEY_HOLD_CYCLE_POINT,
                   'stopcp': mgr.KEY_STOP_CYCLE_POINT}[op[1]]
            mgr.put_workflow_params_1(key, op[2])
        elif k == 'flow':
            mgr.put_insert_workflow_flows(op[1], {
                'start_time': '2020-01-01T00:00:00', 'description': 'f'})
        elif k == 'xtrig':
            mgr.put_xtriggers({op[1]: {'v': 1}})
        elif k == 'abs':
            mgr.put_insert_abs_output(op[1], op[2], 'succeeded')
        elif k == 'remove':
            t = fake_task(op[1], op[2], status='succeeded', submit_num=1)
            mgr.put_update_task_state(t)
        elif k == 'pool':
            tasks = [fake_task(n, p, status=st, submit_num=sn,
                               prereqs=[{('1', 'a', 'succeeded'): False}])
                     for n, p, st, sn in op[1]]
            mgr.put_task_pool(NS(get_tasks=lambda: tasks))


def dump(path):
    if not os.path.exists(path):
        return {}
    con = sqlite3.connect(f'file:{path}?mode=ro', uri=True)
    out = {}
    try:
        tabs = [r[0] for r in con.execute(
            "SELECT name FROM sqlite_master WHERE type='table'")]
        for t in sorted(tabs):
            rows = con.execute(f'SELECT * FROM {t}').fetchall()
            out[t] = sorted(map(repr, rows))
    finally:
        con.close()
    return out


class Env:
    """A manager on a private directory."""

    def __init__(self, tag):
        from cylc.flow.workflow_db_mgr import WorkflowDatabaseManager
        self.dir = os.path.join(boot.SCRATCH, f'dbsim-{os.getpid()}-{tag}')
        shutil.rmtree(self.dir, ignore_errors=True)
        os.makedirs(os.path.join(self.dir, 'pri'))
        os.makedirs(os.path.join(self.dir, 'pub'))
        self.mgr = WorkflowDatabaseManager(
            os.path.join(self.dir, 'pri'), os.path.join(self.dir, 'pub'))
        # classify by our own paths
        self.pri = self.mgr.pri_path
        self.pub = self.mgr.pub_path
        self.mgr.on_workflow_start(False)

    def close(self):
        try:
            self.mgr.on_workflow_shutdown()
        except Exception:
            pass
        DBCTL.close_all()
        shutil.rmtree(self.dir, ignore_errors=True)


class Faults:
    """DBCTL handler: fail statement j of the private DB in the armed call,
    lock the public DB in armed calls."""

    def __init__(self, env):
        self.env = env
        self.pri_at = None      # statement index (1-based) within armed call
        self.pri_mode = 'error'
        self.pub_locked = False
        # 'all': every statement fails (a writer holds the lock);
        # 'commit': statements succeed, the commit fails (a reader does)
        self.pub_mode = 'all'
        self.n_pri = 0
        self.n_pub = 0
        self.pri_ops = []

    def classify(self, path):
        p = str(path)
        if p == self.env.pri:
            return 'pri'
        if p == self.env.pub:
            return 'pub'
        return 'other'

    def handler(self, kind, op, stmt):
        if kind == 'pri':
            self.n_pri += 1
            self.pri_ops.append(op)
            if self.pri_at is not None and self.n_pri == self.pri_at:
                if self.pri_mode == 'crash':
                    raise SimCrash('db crash')
                raise sqlite3.OperationalError('disk I/O error')
        elif kind == 'pub':
            self.n_pub += 1
            if self.pub_locked and (self.pub_mode == 'all' or op == 'commit'):
                raise sqlite3.OperationalError('database is locked')


def setup_env(tag):
    Seams.install()
    DBCTL.reset()
    env = Env(tag)
    f = Faults(env)
    DBCTL.classify = f.classify
    DBCTL.handler = f.handler
    return env, f


def run(params):
    import logging
    from cylc.flow import LOG
    for h in list(LOG.handlers):
        LOG.removeHandler(h)
    LOG.addHandler(logging.NullHandler())
    seed = params['seed']
    rng = random.Random(derive_seed(seed, 'c21'))
    batches = params.get('batches') or gen_batches(rng)
    batches = [[tuple(o) if not isinstance(o, tuple) else o for o in b]
               for b in batches]
    viol = []
    probes = {}
    nontriv = []
    evals = 0
    orig_classify = DBCTL.__class__.classify

    def probe(k):
        probes[k] = probes.get(k, 0) + 1

    def V(rule, detail, preds=()):
        viol.append({'rule': rule, 'detail': detail, 'property': PID,
                     'predicates': list(preds), 'choices': None,
                     'trace': [str(b)[:300] for b in batches],
                     'replay_params': {'seed': seed, 'batches': batches}})
    try:
        # reference: fault-free dumps after each batch; statement counts
        env, f = setup_env('ref')
        ref = []
        counts = []
        for b in batches:
            f.n_pri = 0
            apply_ops(env.mgr, b)
            env.mgr.process_queued_ops()
            ref.append(dump(env.pri))
            counts.append(f.n_pri)
            if dump(env.pub) != ref[-1]:
                V('public_db_differs_without_faults', {'batch': len(ref)})
        env.close()
        bdig = hashlib.sha256(jdump(batches).encode()).hexdigest()[:12]
        # ---- atomicity: fail / crash at every statement of the last batch
        last = len(batches) - 1
        for mode in ('error', 'crash'):
            for j in range(1, counts[last] + 1):
                env, f = setup_env(f'{mode}{j}')
                try:
                    for b in batches[:last]:
                        apply_ops(env.mgr, b)
                        env.mgr.process_queued_ops()
                    before = dump(env.pri)
                    if before != (ref[last - 1] if last else before):
                        V('nondeterministic_reference', {'j': j})
                    f.n_pri = 0
                    f.pri_ops = []
                    f.pri_at = j
                    f.pri_mode = mode
                    apply_ops(env.mgr, batches[last])
                    raised = None
                    try:
                        env.mgr.process_queued_ops()
                    except sqlite3.Error as exc:
                        raised = 'error'
                    except SimCrash:
                        raised = 'crash'
                        DBCTL.close_all()
                    evals += 1
                    f.pri_at = None
                    after = dump(env.pri)
                    if raised is None:
                        V('injected_private_db_fault_was_swallowed', {
                            'j': j, 'mode': mode})
                    elif after != before:
                        diff = {t: [len(before.get(t, [])), len(after.get(t, []))]
                                for t in set(before) | set(after)
                                if before.get(t) != after.get(t)}
                        V('private_db_not_atomic', {
                            'statement': j, 'of': counts[last], 'mode': mode,
                            'tables_changed': diff})
                    if j > 1:
                        probe('pri_fail_mid_transaction' if mode == 'error'
                              else 'pri_crash_mid_transaction')
                        nontriv.append(f'{bdig}:{mode}:{j}')
                finally:
                    env.close()
        # ---- public convergence: lock patterns over the batches
        n = len(batches)
        pats = set()
        for m in range(1, 2 ** min(n, 4)):
            pats.add(tuple(bool(m >> i & 1) for i in range(min(n, 4))) +
                     (False,) * (n - min(n, 4)))
        for _ in range(4):
            pats.add(tuple(rng.random() < 0.5 for _ in range(n)))
        for pat in sorted(pats):
            if not any(pat):
                continue
            env, f = setup_env('pub')
            f.pub_mode = rng.choice(['all', 'commit'])
            try:
                window = []      # ops merged into the pending public retry
                merged_tables = set()
                for b, locked in zip(batches, pat):
                    f.pub_locked = locked
                    apply_ops(env.mgr, b)
                    env.mgr.process_queued_ops()
                    env.mgr.recover_pub_from_pri()
                    if locked or window:
                        window.append(b)
                    if not locked and window:
                        if len(window) > 1:
                            probe('pub_merged_retry')
                            # tables with a delete and an insert in the window
                            merged_tables |= tables_del_ins(window)
                        window = []
                f.pub_locked = False
                evals += 1
                if len(window) > 1:
                    probe('pub_merged_retry')
                    merged_tables |= tables_del_ins(window)
                # faults have stopped: one more round must converge
                env.mgr.process_queued_ops()
                env.mgr.recover_pub_from_pri()
                dp, dq = dump(env.pri), dump(env.pub)
                if dp != ref[-1]:
                    V('private_db_wrong_after_public_faults', {'pattern': pat})
                if any(pat) and not pat[-1]:
                    probe('pub_fail_then_recover')
                    nontriv.append(f'{bdig}:pub:{pat}')
                if dp != dq and env.mgr.pub_dao.n_tries == 0:
                    bad = sorted(t for t in set(dp) | set(dq)
                                 if dp.get(t) != dq.get(t))
                    known = bool(bad) and all(t in merged_tables for t in bad)
                    V('public_db_diverged_for_good', {
                        'pattern': pat, 'tables': bad,
                        'private_rows': {t: dp.get(t, [])[:4] for t in bad[:3]},
                        'public_rows': {t: dq.get(t, [])[:4] for t in bad[:3]}},
                      ['merged_retry_runs_deletes_before_inserts'] if known else [])
            finally:
                env.close()
        # ---- recovery threshold: the public DB stays locked for MAX_TRIES
        # writes in a row (MAX_TRIES lowered to K); the K-th failure must be
        # answered by copying the private DB over the public one
        for mode in ('all', 'commit'):
            K = rng.randint(2, 4)
            env, f = setup_env('thr')
            f.pub_mode = mode
            try:
                env.mgr.pub_dao.MAX_TRIES = K
                k = 0
                for b in batches:
                    apply_ops(env.mgr, b)
                    f.pub_locked = True
                    env.mgr.process_queued_ops()
                    env.mgr.recover_pub_from_pri()
                    k += 1
                    if k == K:
                        break
                while k < K:
                    # (fewer batches than K: further attempts, nothing new)
                    env.mgr.process_queued_ops()
                    env.mgr.recover_pub_from_pri()
                    k += 1
                evals += 1
                dp, dq = dump(env.pri), dump(env.pub)
                probe('pub_locked_up_to_threshold')
                if dp != dq:
                    bad = sorted(t for t in set(dp) | set(dq)
                                 if dp.get(t) != dq.get(t))
                    V('public_db_not_recovered_at_threshold', {
                        'lock': mode, 'max_tries': K, 'tables': bad,
                        'n_tries': env.mgr.pub_dao.n_tries})
            finally:
                f.pub_locked = False
                env.close()
    finally:
        DBCTL.classify = orig_classify
        DBCTL.reset()
    return {
        'violations': viol, 'evaluations': evals,
        'stats': {'faults': {}, 'probes': probes, 'sim_seconds': 0.0,
                  'iterations': 0, 'digests': [], 'nontrivial': nontriv,
                  'pool_states': [],
                  'extra': {'statement_positions_enumerated': sum(counts[-1:]) * 2,
                            'public_lock_patterns': len(pats)}},
        'sample': {'batches': [[list(map(str, o))[:6] for o in b][:8]
                               for b in batches][:3],
                   'statements_in_last_batch': counts[-1]},
    }


TABLE_OF = {
    'bc_set': 'broadcast_states', 'bc_cancel': 'broadcast_states',
    'hold': 'tasks_to_hold', 'pool': 'task_pool',
}


def tables_del_ins(window):
    """Tables that see both a DELETE and an INSERT within a merged window
    spanning more than one batch."""
    out = set()
    ins, dele = {}, {}
    for bi, b in enumerate(window):
        for op in b:
            k = op[0]
            if k == 'bc_set':
                ins.setdefault('broadcast_states', set()).add(bi)
            elif k == 'bc_cancel':
                dele.setdefault('broadcast_states', set()).add(bi)
            elif k == 'hold':
                ins.setdefault('tasks_to_hold', set()).add(bi)
                dele.setdefault('tasks_to_hold', set()).add(bi)
            elif k == 'pool':
                for t in ('task_pool', 'task_prerequisites',
                          'task_timeout_timers'):
                    ins.setdefault(t, set()).add(bi)
                    dele.setdefault(t, set()).add(bi)
                # put_task_pool also UPDATEs the task_states row of every
                # pooled task (submit number, status): merged with the
                # put_update_task_state UPDATEs of a later batch these run
                # grouped by statement text, not in their original order
                dele.setdefault('task_states', set()).add(bi)
            elif k in ('state', 'outputs', 'job', 'jobupd', 'param', 'flow',
                       'xtrig', 'abs'):
                tbl = {'state': 'task_states', 'outputs': 'task_outputs',
                       'job': 'task_jobs', 'jobupd': 'task_jobs',
                       'param': 'workflow_params', 'flow': 'workflow_flows',
                       'xtrig': 'xtriggers', 'abs': 'absolute_outputs'}[k]
                (ins if k in ('job', 'flow', 'xtrig', 'abs', 'param')
                 else dele).setdefault(tbl, set()).add(bi)
            elif k in ('spawn', 'remove'):
                # INSERT (spawn) and UPDATE (remove) of task_states /
                # task_outputs rows: merged statements run grouped by kind
                # (deletes, inserts, updates), not in their original order
                for t in ('task_states', 'task_outputs'):
                    (ins if k == 'spawn' else dele).setdefault(
                        t, set()).add(bi)
    # a table written by more than one batch of the merged window, or written
    # in the failed batch at all: the merged re-run executes statements
    # grouped by kind, and a statement that then fails (e.g. an INSERT
    # re-run against rows an earlier partial attempt left) takes the whole
    # merged batch with it
    for t in set(ins) | set(dele):
        if len(ins.get(t, set()) | dele.get(t, set())) > 1 or (
                0 in (ins.get(t, set()) | dele.get(t, set()))):
            out.add(t)
    return out
