"""C19 Stop-and-restart preserves the workflow state (engine E1)."""
import random

from ..boot import CLOCK
from ..core import derive_seed
from ..e1 import Case, CommandDriver, Monitor, run_case, snapshot
from ..monitors import InvariantMonitor
from .common import (
    FinalDbMonitor, LaunchMonitor, RATES_NONE, RATES_SCHED, base_stats,
    launched_instances, sample_of, swarm_gkw, unexpected_stop, viol_dicts,
)

PID = 'C19'
ENGINE = 'E1'
LEVEL = 'exploration'
RULE = (
    'One case = generated workflow (retries, custom/optional outputs, '
    'runahead limit; half with a hold point, stop point, stop task, held '
    'tasks and a broadcast set by command) run twice from the same seed: '
    'uninterrupted, and with stop / stop --now injected at '
    'a seeded main-loop iteration followed by 1-2 restarts after a seeded '
    'downtime. Snapshot of the scheduler just before shutdown is compared '
    'field by field with the snapshot loaded from the database; the '
    'continued run is compared with the uninterrupted run (instances, final '
    'recorded outputs, no key launched twice, retry delays honoured). '
    'Distinct = distinct (program, stop iteration, stop mode); non-trivial = '
    'the stop landed while at least one task was active or retrying.')
ASSUMPTIONS = [
    'jobs keep running while the scheduler is down; their messages are lost '
    'and recovered by the restart poll',
    'snapshot S2 is taken after the database load, before the restart poll',
]
TIERS = {
    'quick': {'n': 700, 'budget_s': 420, 'chunk': 8},
    'thorough': {'n': 14000, 'budget_s': 3000, 'chunk': 20},
}
EXPECTED_PROBES = ['stop_with_active_tasks', 'stop_with_retry_pending',
                   'restart_reloaded_preparing', 'second_restart']
KNOBS = {'p_retries': 0.5, 'p_runahead': 0.5, 'span': (3, 5)}


class BcMode:
    """Stand-in for the GraphQL enum (only ``.value`` is used)."""

    def __init__(self, value):
        self.value = value

    def __repr__(self):
        return self.value


def make_params(seed, tier):
    return {'seed': seed}


def stop_plan(seed, base_iters):
    rng = random.Random(derive_seed(seed, 'stopplan'))
    from cylc.flow.workflow_status import StopMode
    stops = []
    n = 1 if rng.random() < 0.75 else 2
    hi = max(3, base_iters - 2)
    for inc in range(n):
        stops.append({
            'incarnation': inc,
            'iter': rng.randint(2, hi) if inc == 0 else rng.randint(2, 12),
            'slot': rng.randint(0, 1),
            'name': 'stop',
            # (stop --now --now is not in the property's scope: it kills
            # in-flight job submissions, whose jobs may or may not exist)
            'kwargs': {'mode': rng.choice([
                StopMode.REQUEST_CLEAN, StopMode.REQUEST_NOW,
                StopMode.REQUEST_NOW])},
            'downtime': rng.choice([0.0, 3.0, 10.0, 40.0]),
        })
    return stops


def extra_commands(seed, prog):
    """State-setting commands issued early (same in both runs)."""
    rng = random.Random(derive_seed(seed, 'xcmds'))
    cmds = []
    if rng.random() < 0.5:
        return cmds
    names = list(prog.tasks)
    pts = list(range(prog.icp, prog.fcp + 1))
    if rng.random() < 0.5 and len(pts) > 2:
        cmds.append({'at_time': 0.0, 'name': 'set_hold_point',
                     'kwargs': {'point': prog.pstr(rng.choice(pts[1:]))}})
    if rng.random() < 0.5:
        ids = [f'{prog.pstr(rng.choice(pts))}/{rng.choice(names)}'
               for _ in range(rng.randint(1, 2))]
        cmds.append({'at_time': 0.0, 'name': 'hold', 'kwargs': {'tasks': ids}})
    if rng.random() < 0.4 and len(pts) > 2:
        cmds.append({'at_time': 0.0, 'name': 'stop', 'kwargs': {
            'mode': None, 'cycle_point': prog.pstr(rng.choice(pts[1:]))}})
    if rng.random() < 0.5:
        cmds.append({'at_time': 0.0, 'name': 'broadcast', 'kwargs': {
            'mode': BcMode('put_broadcast'),
            'cycle_points': [rng.choice(['*', prog.pstr(pts[-1])])],
            'namespaces': [rng.choice(names + ['root'])],
            'settings': [{'environment': {'FOO': str(rng.randint(0, 9))}}]}})
    if rng.random() < 0.4:
        # a force-satisfied prerequisite (its kind must survive the restart)
        ids = [f'{prog.pstr(rng.choice(pts))}/{rng.choice(names)}']
        cmds.append({'at_time': 0.0, 'name': 'set', 'kwargs': {
            'tasks': ids, 'flow': [], 'prerequisites': ['all']}})
    r2 = random.Random(derive_seed(seed, 'xcmds-hold-active'))
    if r2.random() < 0.4:
        # hold everything in the pool a little later: tasks with live jobs
        # (and finished incomplete ones) are held too, and stay held
        # across the restart
        cmds.append({'at_time': r2.choice([2.0, 4.0, 7.0, 11.0]),
                     'name': 'hold', 'kwargs': {'tasks': ['*/*']}})
        cmds.append({'at_time': 60.0, 'name': 'release',
                     'kwargs': {'tasks': ['*/*']}})
    # always release everything later so that both runs can finish
    cmds.append({'at_time': 60.0, 'name': 'release_hold_point', 'kwargs': {}})
    return cmds


class StopRestart(Monitor):
    """Lifecycle: run, on a requested stop take S1, restart, take S2."""

    def __init__(self, stops):
        self.stops = stops
        self.pairs = []

    def attach(self, h, res, case):
        self.h = h
        self.res = res
        h.start_hooks.append(self.on_start)
        self.pending_s1 = None

    def on_start(self, h):
        if self.pending_s1 is not None:
            s2 = snapshot(h)
            self.pairs.append((self.pending_s1, s2, h.incarnation))
            self.pending_s1 = None

    def lifecycle(self, h, res):
        for guard in range(6):
            info = h.run_once()
            res.stops.append(info.reason)
            if info.reason.startswith('stop:REQUEST') and h.schd is not None:
                sim = h.sim
                s1 = snapshot(h)
                self.pending_s1 = s1
                act = [t for t, d in s1['tasks'].items()
                       if d['status'] in ('submitted', 'running')]
                if act:
                    sim.probe('stop_with_active_tasks')
                if any(d['status'] == 'preparing' for d in s1['tasks'].values()):
                    sim.probe('restart_reloaded_preparing')
                if any(not v for d in s1['tasks'].values()
                       for k, v in d['xtriggers'].items()
                       if k.startswith('_cylc')):
                    sim.probe('stop_with_retry_pending')
                st = [s for s in self.stops
                      if s['incarnation'] == h.incarnation - 1]
                h.world.downtime(st[0]['downtime'] if st else 1.0)
                if h.incarnation >= 2:
                    sim.probe('second_restart')
                sim.fault('stop_restart')
                continue
            break


def stop_point_reached(res, s1):
    """No pooled task at or before the stop point is still to run."""
    try:
        sp = res.prog.ppoint(str(s1['stop_point']))
    except Exception:
        return False
    for ident, d in s1['tasks'].items():
        try:
            p = res.prog.ppoint(ident.split('/')[0])
        except Exception:
            return False
        if p <= sp and d['status'] in ('waiting', 'preparing', 'submitted',
                                       'running'):
            return False
    return True


def compare_snapshots(res, s1, s2, inc):
    preds = set()
    n_bad = n_known = 0

    def bad(what, detail, pred=None):
        nonlocal n_bad, n_known
        n_bad += 1
        if pred:
            n_known += 1
            preds.add(pred)
        res.violate('restart_snapshot_differs', dict(
            detail, field=what, incarnation=inc, known=pred))

    for key in ('hold_point', 'stop_point', 'stop_task', 'tasks_to_hold',
                'broadcasts', 'flow_counter'):
        if s1[key] != s2[key]:
            if key == 'stop_point' and s2[key] is None and stop_point_reached(
                    res, s1):
                # by design: once everything up to the stop point has run the
                # scheduler forgets the stop point "in case of a restart"
                # (the auto-shutdown decision and an operator stop can
                # coincide); the restarted run then goes on to the final point
                res.sim.probe('stop_point_reached_then_restart')
                res.stop_point_forgotten = True
                continue
            bad(key, {'before': s1[key], 'after': s2[key]})
    t1, t2 = s1['tasks'], s2['tasks']
    if set(t1) != set(t2):
        bad('pool_membership', {'only_before': sorted(set(t1) - set(t2)),
                                'only_after': sorted(set(t2) - set(t1))})
    for ident in sorted(set(t1) & set(t2)):
        a, b = t1[ident], t2[ident]
        want_status = 'waiting' if a['status'] == 'preparing' else a['status']
        if b['status'] != want_status:
            bad('status', {'task': ident, 'before': a['status'],
                           'after': b['status']})
        want_sn = a['submit_num'] - 1 if a['status'] == 'preparing' else a['submit_num']
        if b['submit_num'] != want_sn:
            bad('submit_num', {'task': ident, 'before': a['submit_num'],
                               'after': b['submit_num'],
                               'status': a['status']})
        for f in ('flows', 'held', 'flow_wait'):
            if a[f] != b[f]:
                bad(f, {'task': ident, 'before': a[f], 'after': b[f]})
        if a['prereqs'] != b['prereqs']:
            bad('prereqs', {'task': ident, 'before': a['prereqs'],
                            'after': b['prereqs']})
        # satisfied retry xtriggers are history (their time has passed): a
        # restart may drop them or re-arm them with the past trigger time
        gone = {k for k, v in a['xtriggers'].items()
                if k.startswith('_cylc_') and v}
        xa = {k: v for k, v in a['xtriggers'].items() if k not in gone}
        xb = {k: v for k, v in b['xtriggers'].items() if k not in gone}
        if xa != xb:
            lost = {k: v for k, v in xa.items() if k not in xb}
            if lost and all(k.startswith('_cylc_') and v
                            for k, v in lost.items()) and (
                    {k: v for k, v in xa.items() if k in xb} == xb):
                # satisfied retry xtriggers of past tries: pure history
                pass
            elif lost and all(k.startswith('_cylc_') for k in lost) and (
                    {k: v for k, v in xa.items() if k in xb} == xb):
                bad('xtriggers', {'task': ident, 'before': xa, 'after': xb},
                    pred='retry_xtrigger_not_restored')
            else:
                bad('xtriggers', {'task': ident, 'before': xa, 'after': xb})
        oa, ob = set(a['outputs']), set(b['outputs'])
        if oa != ob:
            if a['status'] in ('submitted', 'preparing') and not ob and (
                    oa <= {'submitted'}):
                # re-derived by the restart poll, which is part of the
                # restart procedure
                pass
            elif a['status'] in ('waiting', 'preparing') and ob <= oa:
                bad('outputs', {'task': ident, 'before': sorted(oa),
                                'after': sorted(ob), 'status': a['status']},
                    pred='outputs_of_waiting_task_not_restored')
            else:
                bad('outputs', {'task': ident, 'before': sorted(oa),
                                'after': sorted(ob), 'status': a['status']})
    return preds, n_bad, n_known


def late_custom_downstream(res, missing, never=False):
    """All `missing` instances are downstream of a custom output whose
    message was lost while the scheduler was down and which the restart
    poll reported only after the job's final message had been handled
    (with `never`: or which no poll reported before the scheduler exited)."""
    import re
    roots = set()
    for key, msg in res.world.lost_msgs:
        if not msg.startswith('msg '):
            continue
        out = msg[4:]
        pat = re.compile(
            r'^\[%s/%s/%02d:(succeeded|failed)[^\]]*\] completed output %s$'
            % (re.escape(key[0]), re.escape(key[1]), key[2], re.escape(out)))
        # (or, the job having failed and the task gone back to waiting for a
        # retry, the polled message is ignored as one of an old submit)
        pat2 = re.compile(r'^\[%s/%s:waiting[^\]]*\] \(polled-ignored\)msg %s$'
                          % (re.escape(key[0]), re.escape(key[1]),
                             re.escape(out)))
        pat3 = re.compile(
            r'^\[%s/%s/%02d:[^\]]*\] completed output %s$'
            % (re.escape(key[0]), re.escape(key[1]), key[2], re.escape(out)))
        if any(pat.match(m) or pat2.match(m) for _l, m in res.log) or (
                never and not any(pat3.match(m) for _l, m in res.log)):
            roots.add((key[1], res.prog.ppoint(key[0]), out))
    if not roots:
        return False
    model = res.model
    seen = set()
    todo = [k for (u, q, o) in roots for k in model.children(u, q, o)]
    if never:
        # the root task itself is left incomplete (its required custom
        # output never arrives): it stays in the pool and holds back the
        # runahead limit, so its own next instance may never be released
        for (u, q, _o) in roots:
            later = [x for x in model._valid[u] if x > q]
            if later:
                todo.append((u, min(later)))
    while todo:
        k = todo.pop()
        if k in seen:
            continue
        seen.add(k)
        t, p = k
        outs = ['submitted', 'submit-failed', 'started', 'succeeded',
                'failed', 'expired'] + list(res.prog.tasks[t].customs)
        for o in outs:
            todo.extend(model.children(t, p, o))
        # the next instance of the same task may be spawned only by the
        # release of this one from the runahead limit (a parentless
        # instance after one with parents: see finding C04-F1)
        later = [q for q in model._valid[t] if q > p]
        if later:
            todo.append((t, min(later)))
    return set(missing) <= seen


def run(params):
    seed = params['seed']
    rng = random.Random(derive_seed(seed, 'swarm'))
    rates = [RATES_NONE, RATES_SCHED][seed % 2]
    gkw = swarm_gkw(rng)

    def mkcase():
        c = Case(seed, knobs=KNOBS, rates=rates, policy='any',
                 plan_kw={'p_fail': 0.35}, gkw=gkw)
        c.build()
        return c
    # 1. uninterrupted run
    c0 = mkcase()
    xc = extra_commands(seed, c0.prog)
    manual = set()
    for c_ in xc:
        if c_['name'] == 'set':
            for ident in c_['kwargs']['tasks']:
                cyc_, nm_ = ident.split('/')
                manual.add((nm_, c0.prog.ppoint(cyc_)))
    base = run_case(c0, monitors=[
        LaunchMonitor(manual=manual),
        InvariantMonitor(manual=manual, commands=bool(xc)),
        CommandDriver([dict(c) for c in xc]), FinalDbMonitor()])
    if base.error:
        return {'error': 'base run: ' + base.error, 'violations': [], 'stats': {}}
    # 2. interrupted run
    c1 = mkcase()
    c1.choices = params.get('choices')
    stops = params.get('stops') or stop_plan(seed, base.iterations)
    sr = StopRestart(stops)
    res = run_case(c1, monitors=[
        LaunchMonitor(manual=manual),
        InvariantMonitor(manual=manual, commands=True),
        CommandDriver([dict(c) for c in xc] + [dict(s) for s in stops]),
        sr, FinalDbMonitor()], lifecycle=sr.lifecycle)
    if res.error:
        return {'error': res.error, 'violations': [], 'stats': {}}
    preds = {}
    if unexpected_stop(res.stops[-1]) and not unexpected_stop(base.stops[-1]):
        res.violate('scheduler_aborted_unexpectedly', {
            'stop': res.stops, 'log_tail': res.log_tail[-6:]})
    # snapshots
    ps = set()
    tot_bad = tot_known = 0
    for s1, s2, inc in sr.pairs:
        p, nb, nk = compare_snapshots(res, s1, s2, inc)
        ps |= p
        tot_bad += nb
        tot_known += nk
    if tot_bad and tot_bad == tot_known and len(ps) == 1:
        preds['restart_snapshot_differs'] = list(ps)
    # continued run vs uninterrupted run
    restarted = len(res.stops) > 1
    # (with delivery faults the two runs may legitimately differ through
    # the late-custom-output finding C10-F1: compare fault-free pairs only)
    if restarted and not rates and not getattr(
            res, 'stop_point_forgotten', False):
        lb, lr = launched_instances(base), launched_instances(res)
        if set(lb) != set(lr):
            if not (set(lr) - set(lb)) and late_custom_downstream(
                    res, set(lb) - set(lr)):
                preds['continued_run_instances_differ'] = [
                    'custom_output_polled_after_final_status']
            elif not (set(lr) - set(lb)) and late_custom_downstream(
                    res, set(lb) - set(lr), never=True):
                # the simulated world drops messages sent to a scheduler
                # that is down; here no poll result arrived before the run
                # ended (e.g. stalled with a zero stall timeout)
                res.sim.probe('custom_output_lost_while_down')
                lr = None
        if lr is None:
            pass
        elif set(lb) != set(lr):
            res.violate('continued_run_instances_differ', {
                'only_uninterrupted': sorted(res.prog.iid(*i) for i in set(lb) - set(lr)),
                'only_continued': sorted(res.prog.iid(*i) for i in set(lr) - set(lb)),
                'stops': res.stops, 'base_stop': base.stops})
        else:
            diffs = {}
            for k in sorted(set(base.db_outputs) | set(res.db_outputs)):
                a, b = base.db_outputs.get(k, set()), res.db_outputs.get(k, set())
                if a != b:
                    # a custom output message sent while the scheduler was
                    # down is lost; the restart poll finds it, but if the
                    # job's final message is handled first it is ignored
                    # (finding C10-F1): such instances are not compared
                    lost = {m[4:] for kk, m in res.world.lost_msgs
                            if kk[1] == k[0] and kk[0] == k[1]
                            and m.startswith('msg ')}
                    if lost and (a - b) <= lost and not (b - a):
                        res.sim.probe('custom_output_lost_while_down')
                        continue
                    diffs[f'{k[1]}/{k[0]}'] = [sorted(a), sorted(b)]
            if diffs:
                res.violate('continued_run_final_outputs_differ', {
                    'uninterrupted_vs_continued': dict(list(diffs.items())[:6])})
        # retry delays honoured across the downtime
        bad_retry = []
        by_inst = {}
        for t, key in res.launches:
            by_inst.setdefault((key[0], key[1]), []).append((key[2], t))
        for (pstr, name), subs in by_inst.items():
            task = res.prog.tasks.get(name)
            if task is None:
                continue
            subs.sort()
            for (n1, t1), (n2, t2) in zip(subs, subs[1:]):
                j1 = res.world.jobs.get((pstr, name, n1))
                if j1 is None:
                    continue
                end = j1.end_time() if j1.submit_ok else j1.t_submit
                if end is None:
                    continue
                if t2 + 1e-6 < end + task.retry_delay:
                    bad_retry.append({
                        'instance': f'{pstr}/{name}', 'try': n2,
                        'launched_at': t2, 'previous_try_ended': end,
                        'configured_delay': task.retry_delay})
        if bad_retry:
            res.violate('retry_launched_before_delay', {'cases': bad_retry[:4]})
            preds['retry_launched_before_delay'] = ['retry_timer_forgotten_by_restart']
    nontriv = None
    if restarted and (res.sim.probes.get('stop_with_active_tasks') or
                      res.sim.probes.get('stop_with_retry_pending')):
        nontriv = [res.prog.render(), [(s['iter'], str(s['kwargs'])) for s in stops]]
    return {
        'violations': viol_dicts(res, PID, preds),
        'stats': base_stats(res, nontriv),
        'sample': sample_of(res, {
            'stops': [(s['iter'], str(s['kwargs']['mode']), s['downtime'])
                      for s in stops]}),
    }
