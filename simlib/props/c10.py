"""C10 Stale, duplicate, out-of-order messages (engine E1, exploration). See DESIGN.md section 7."""
from .common import (
    generic_run, FinalDbMonitor, launched_instances, reload_monitors)

PID = 'C10'
ENGINE = 'E1'
LEVEL = 'exploration'
RULE = ('One case = generated workflow with retries and failing jobs; messages of one job may overtake each other, be duplicated, delayed beyond the next submission or dropped, and polls answer with the job state at answer time. After every processed message the task state is compared with the state before (stale submit number => unchanged; backward message => unchanged + a poll); at the end the recorded outputs of every instance are compared with the true outcome of its latest job. A share of the cases reloads the unchanged definition once in mid-run. Distinct = distinct (program, schedule digest); non-trivial = a message from an older submission or a backward message was actually delivered.')
ASSUMPTIONS = [
    'jobs, polls, submissions, message transport and the clock are simulated',
    'reference model / invariants cover the generated workflow sub-language',
]
TIERS = {
    'quick': {'n': 1000, 'budget_s': 420, 'chunk': 10},
    'thorough': {'n': 20000, 'budget_s': 3000, 'chunk': 25},
}
EXPECTED_PROBES = ['stale_submit_message', 'backward_message_poll_requested']


def make_params(seed, tier):
    return {'seed': seed}

KNOBS = {'p_retries': 0.8, 'p_submit_retries': 0.3, 'p_custom': 0.5,
         'n_tasks': (2, 4)}
RATES = {'msg_delay': 0.45, 'msg_dup': 0.2, 'msg_reorder': 0.5,
         'msg_drop': 0.08, 'poll_fail': 0.05}


def end_check(res, mode):
    """Final outputs of each instance = the latest job's true outcome."""
    prog, plan = res.prog, res.plan
    preds = {}
    n_viol = n_late = 0
    launched = launched_instances(res)
    for (t, p), subs in launched.items():
        want = plan.final_outputs(t, p)
        if len(subs) != plan.n_submissions(t, p):
            continue        # interrupted by a stall elsewhere
        last = res.world.jobs.get((prog.pstr(p), t, max(subs)))
        if last is None or last.active(res.sim_seconds):
            continue
        got = res.db_outputs.get((t, prog.pstr(p)), set())
        # lower bound: what the latest job itself did; upper bound: what
        # any job of this instance did (earlier tries' outputs persist if
        # they arrived while that try was current)
        lj = plan.seq(t, p)[-1]
        low = set()
        if lj['submit']:
            low |= {'submitted', 'started'}
            low |= {m[4:] for m in lj['outputs']}
            low.add('succeeded' if lj['final'] == 'succeeded' else 'failed')
        else:
            low.add('submit-failed')
        lkey = (prog.pstr(p), t, max(subs))
        # outputs whose message is still in flight at the end do not count
        inflight = {m[4][4:] for m in res.world.pending_msgs
                    if m[2] == lkey and m[4].startswith('msg ')}
        low -= inflight
        if not (low <= got <= want):
            lost = low - got
            extra = got - want
            n_viol += 1
            res.violate('final_outputs_differ_from_job_outcome', {
                'instance': prog.iid(t, p), 'recorded': sorted(got),
                'latest_job': sorted(low), 'all_jobs': sorted(want)})
            customs = set(prog.tasks[t].customs)
            if lost and lost <= customs and not extra:
                # known-finding predicate: every lost custom output's message
                # was delivered only after the same job's final message
                log = res.world.msg_log
                fin = [i for i, (_, k, m) in enumerate(log) if k == lkey and (
                    m == 'succeeded' or m.startswith('failed'))]
                late = True
                for c in lost:
                    at = [i for i, (_, k, m) in enumerate(log)
                          if k == lkey and m == f'msg {c}']
                    if not fin or not at or min(at) < min(fin):
                        late = False
                if late:
                    n_late += 1
    if n_viol and n_viol == n_late:
        preds['final_outputs_differ_from_job_outcome'] = [
            'custom_output_delivered_after_final_message']
    return preds


def run(params):
    p = dict(params)
    p['rates'] = RATES
    return generic_run(PID, p, knobs=KNOBS, policy='any',
                       plan_kw={'p_fail': 0.6, 'p_vanish': 0.1},
                       monitors=[FinalDbMonitor()] + reload_monitors(
                           params['seed'], 'c10', every=4),
                       end_check=end_check,
                       world_cfg={'intra_job_reorder': True},
                       probe_key='stale_submit_message')
