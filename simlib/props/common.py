"""Shared pieces for E1 property drivers."""
import hashlib
import random

from ..boot import CLOCK
from ..core import derive_seed, jdump
from ..e1 import Case, Monitor, run_case, world_truth_outputs

# default schedule-fault rates
RATES_NONE = {}
RATES_SCHED = {'msg_delay': 0.25, 'msg_dup': 0.1, 'msg_reorder': 0.3}
RATES_LOSSY = {'msg_delay': 0.25, 'msg_dup': 0.1, 'msg_reorder': 0.3,
               'msg_drop': 0.12, 'poll_fail': 0.1}


def swarm_gkw(rng):
    """Per-run global-config knobs."""
    return {
        'pool_size': rng.choice([1, 2, 4, 4]),
        'sub_poll': rng.choice(['PT10S', 'PT5S', 'PT20S']),
        'exe_poll': rng.choice(['PT10S', 'PT5S', 'PT20S']),
    }


class LaunchMonitor(Monitor):
    """Records every job launch with world-truth at that instant; checks
    validity, prerequisites (C01), duplicates (C02), bounds (C07)."""

    def __init__(self, check_prereqs=True, manual=None):
        self.check_prereqs = check_prereqs
        self.manual = manual if manual is not None else set()
        self.keys = {}

    def attach(self, h, res, case):
        self.res = res
        self.h = h
        res.launch_details = []
        h.world.on_launch.append(self.on_launch)

    def on_launch(self, key, job):
        res = self.res
        prog = res.prog
        model = res.model
        pstr, name, nn = key
        now = CLOCK.t
        if name not in prog.tasks:
            return
        p = prog.ppoint(pstr)
        n_prev = self.keys.get(key, 0)
        self.keys[key] = n_prev + 1
        if n_prev:
            res.violate('dup_launch_key', {'key': list(key), 't': now,
                                           'property': 'C02'})
        if not model.valid(name, p):
            res.violate('launch_invalid_point', {
                'instance': prog.iid(name, p), 't': now})
        if (name, p) in self.manual:
            return
        if self.check_prereqs:
            truth = world_truth_outputs(res.world, res.plan, prog, now)
            for e in model.prereq_exprs(name, p):
                if not model.eval(e, truth, p):
                    res.violate('launch_prereq_unsatisfied', {
                        'instance': prog.iid(name, p), 'submit': nn,
                        't': now, 'expr': repr(e),
                        'truth': {f'{k[1]}/{k[0]}': sorted(v)
                                  for k, v in truth.items()
                                  if any(k[0] == a[0] and k[1] == a[1]
                                         for a in model.conc_atoms(e))}})
                    break


def launched_instances(res):
    out = {}
    for t, key in res.launches:
        if key[1] in res.prog.tasks:
            out.setdefault((key[1], res.prog.ppoint(key[0])), []).append(key[2])
    return out


def verdict_of(stop):
    if stop == 'stop:AUTOMATIC':
        return 'shutdown'
    if 'stall timeout' in stop:
        return 'stall'
    return stop


def base_stats(res, nontrivial_key=None):
    sim = res.sim
    st = {
        'faults': dict(sim.faults),
        'probes': dict(sim.probes),
        'sim_seconds': res.sim_seconds,
        'iterations': res.iterations,
        'digests': [sim.hexdigest()],
        'nontrivial': [],
        'pool_states': sorted(res.pool_digests)[:50],
    }
    if nontrivial_key is not None:
        st['nontrivial'] = [hashlib.sha256(
            jdump(nontrivial_key).encode()).hexdigest()[:16]]
    return st


def sample_of(res, extra=None):
    d = {
        'flow_cylc_graph': [ln.strip() for ln in res.prog.render().splitlines()
                            if '=>' in ln or ln.strip().endswith('= """')][:20],
        'launch_order': [f'{k[0]}/{k[1]}/{k[2]:02d}' for _, k in res.launches][:40],
        'stop': res.stops,
        'faults': dict(res.sim.faults),
        'n_choices': len(res.sim.choices),
        'event_log_head': res.sim.events[:25],
    }
    if extra:
        d.update(extra)
    return d


def viol_dicts(res, pid, predicates=None):
    out = []
    for rule, detail in res.violations:
        prop = pid
        if isinstance(detail, dict) and 'property' in detail:
            prop = detail['property']
        out.append({'rule': rule, 'detail': detail, 'property': prop,
                    'predicates': list((predicates or {}).get(rule, [])),
                    'choices': list(res.sim.choices),
                    'trace': res.sim.events[-60:]})
    return out
