"""Shared pieces for E1 property drivers."""
import hashlib
import random

from ..boot import CLOCK
from ..core import derive_seed, jdump
from ..e1 import Case, Monitor, run_case, world_truth_outputs

# default schedule-fault rates
RATES_NONE = {}
RATES_SCHED = {'msg_delay': 0.25, 'msg_dup': 0.1, 'msg_reorder': 0.3}
RATES_LOSSY = {'msg_delay': 0.25, 'msg_dup': 0.1, 'msg_reorder': 0.3,
               'msg_drop': 0.12, 'poll_fail': 0.1}


def swarm_gkw(rng):
    """Per-run global-config knobs."""
    return {
        'pool_size': rng.choice([1, 2, 4, 4]),
        'sub_poll': rng.choice(['PT10S', 'PT5S', 'PT20S']),
        'exe_poll': rng.choice(['PT10S', 'PT5S', 'PT20S']),
    }


class LaunchMonitor(Monitor):
    """Records every job launch with world-truth at that instant; checks
    validity, prerequisites (C01), duplicates (C02), bounds (C07)."""

    def __init__(self, check_prereqs=True, manual=None, truth_extra=None):
        self.truth_extra = truth_extra   # callable() -> {(name, p): outputs}
        self.check_prereqs = check_prereqs
        self.manual = manual if manual is not None else set()
        self.keys = {}

    def attach(self, h, res, case):
        self.res = res
        self.h = h
        res.launch_details = []
        h.world.on_launch.append(self.on_launch)

    def on_launch(self, key, job):
        res = self.res
        prog = res.prog
        model = res.model
        pstr, name, nn = key
        now = CLOCK.t
        if name not in prog.tasks:
            return
        p = prog.ppoint(pstr)
        n_prev = self.keys.get(key, 0)
        self.keys[key] = n_prev + 1
        if n_prev:
            res.violate('dup_launch_key', {'key': list(key), 't': now,
                                           'property': 'C02'})
        if not model.valid(name, p):
            res.violate('launch_invalid_point', {
                'instance': prog.iid(name, p), 't': now, 'property': 'C07'})
        if p > model.stop and (name, p) not in self.manual:
            res.violate('launched_beyond_stop_point', {
                'instance': prog.iid(name, p), 'stop': prog.pstr(model.stop),
                'property': 'C07'})
        if (name, p) in self.manual:
            return
        if self.check_prereqs:
            truth = world_truth_outputs(res.world, res.plan, prog, now)
            if self.truth_extra is not None:
                for k, v in self.truth_extra().items():
                    truth.setdefault(k, set()).update(v)
            for e in model.prereq_exprs(name, p):
                if not model.eval(e, truth, p):
                    res.violate('launch_prereq_unsatisfied', {
                        'property': 'C01',
                        'instance': prog.iid(name, p), 'submit': nn,
                        't': now, 'expr': repr(e),
                        'truth': {f'{k[1]}/{k[0]}': sorted(v)
                                  for k, v in truth.items()
                                  if any(k[0] == a[0] and k[1] == a[1]
                                         for a in model.conc_atoms(e))}})
                    break


def launched_instances(res):
    out = {}
    for t, key in res.launches:
        if key[1] in res.prog.tasks:
            out.setdefault((key[1], res.prog.ppoint(key[0])), []).append(key[2])
    return out


def verdict_of(stop):
    if stop == 'stop:AUTOMATIC':
        return 'shutdown'
    if 'stall timeout' in stop:
        return 'stall'
    return stop


def base_stats(res, nontrivial_key=None):
    sim = res.sim
    st = {
        'faults': dict(sim.faults),
        'probes': dict(sim.probes),
        'sim_seconds': res.sim_seconds,
        'iterations': res.iterations,
        'digests': [sim.hexdigest()],
        'nontrivial': [],
        'pool_states': sorted(res.pool_digests)[:50],
    }
    if nontrivial_key is not None:
        st['nontrivial'] = [hashlib.sha256(
            jdump(nontrivial_key).encode()).hexdigest()[:16]]
    return st


def sample_of(res, extra=None):
    d = {
        'flow_cylc_graph': [ln.strip() for ln in res.prog.render().splitlines()
                            if '=>' in ln or ln.strip().endswith('= """')][:20],
        'launch_order': [f'{k[0]}/{k[1]}/{k[2]:02d}' for _, k in res.launches][:40],
        'stop': res.stops,
        'faults': dict(res.sim.faults),
        'n_choices': len(res.sim.choices),
        'event_log_head': res.sim.events[:25],
    }
    if extra:
        d.update(extra)
    return d


def viol_dicts(res, pid, predicates=None):
    out = []
    for rule, detail in res.violations:
        prop = pid
        if isinstance(detail, dict) and 'property' in detail:
            prop = detail['property']
        pr = list((predicates or {}).get(rule, []))
        if isinstance(detail, dict) and detail.get('predicates'):
            pr += list(detail['predicates'])
        out.append({'rule': rule, 'detail': detail, 'property': prop,
                    'predicates': pr,
                    'choices': list(res.sim.choices),
                    'trace': res.sim.events[-60:]})
    return out


# ---------------------------------------------------------------------------
# generic E1 driver
# ---------------------------------------------------------------------------

EXPECTED_STOPS = ('stop:AUTOMATIC',)


def unexpected_stop(stop):
    """A scheduler exit that is neither a normal stop nor the configured
    abort-on-stall."""
    if stop.startswith('stop:'):
        return False
    if 'stall timeout' in stop:
        return False
    return True


def generic_run(pid, params, knobs=None, policy='complete', plan_kw=None,
                modes=('none', 'sched', 'lossy'), monitors=None,
                end_check=None, probe_key=None, world_cfg=None, opts=None,
                prog_hook=None, own_rules=None, lifecycle=None,
                manual=None, commands=False):
    """Run one E1 case with the standard monitors; returns the driver dict.

    probe_key: name of the probe that makes a run non-trivial for ``pid``.
    """
    from ..monitors import InvariantMonitor
    seed = params['seed']
    rng = random.Random(derive_seed(seed, 'swarm'))
    mode = params.get('mode') or modes[seed % len(modes)]
    rates = {'none': RATES_NONE, 'sched': RATES_SCHED,
             'lossy': RATES_LOSSY}.get(mode, RATES_NONE)
    if params.get('rates'):
        rates = params['rates']
    kn = dict(knobs or {})
    kn.update(params.get('knobs') or {})
    case = Case(seed, knobs=kn, rates=rates, policy=policy,
                plan_kw=plan_kw or {}, gkw=swarm_gkw(rng),
                world_cfg=world_cfg or {}, opts=opts or {})
    case.choices = params.get('choices')
    case.build()
    if prog_hook:
        prog_hook(case.prog, rng)
    o = case.opts
    if case.prog.stop is not None:
        o['stopcp'] = case.prog.pstr(case.prog.stop)
    if case.prog.start is not None:
        o['startcp'] = case.prog.pstr(case.prog.start)
    if case.prog.hold is not None:
        o['holdcp'] = case.prog.pstr(case.prog.hold)
    mons = [LaunchMonitor(manual=manual) if manual is not None
            else LaunchMonitor(),
            InvariantMonitor(relaxed=(mode == 'lossy'), manual=manual,
                             commands=commands)]
    mons += list(monitors or [])
    res = run_case(case, monitors=mons, lifecycle=lifecycle)
    if res.error:
        return {'error': res.error, 'violations': [], 'stats': {}}
    preds = {}
    if unexpected_stop(res.stops[-1]):
        res.violate('scheduler_aborted_unexpectedly', {
            'stop': res.stops[-1], 'property': 'C03',
            'log_tail': res.log_tail[-6:]})
    if end_check:
        preds = end_check(res, mode) or {}
    nontriv = None
    if probe_key is None or res.sim.probes.get(probe_key):
        nontriv = [res.prog.render(), res.sim.hexdigest()]
    return {
        'violations': viol_dicts(res, pid, preds),
        'stats': base_stats(res, nontriv),
        'sample': sample_of(res, {'mode': mode}),
    }


def reload_monitors(seed, tag, every=3):
    """For one case in `every`: a driver that reloads the unchanged
    definition once in the middle of the run (every proxy is replaced by a
    successor that must carry status, submit number, outputs, timers)."""
    if seed % every:
        return []
    from ..e1 import CommandDriver
    r_ = random.Random(derive_seed(seed, tag + '-reload'))
    return [CommandDriver([{'iter': r_.randint(2, 30), 'slot': 0,
                            'name': 'reload_workflow', 'kwargs': {}}])]


def final_db_outputs(res):
    """Final completed outputs per instance as recorded in the run DB
    (read before cleanup by FinalDbMonitor)."""
    return getattr(res, 'db_outputs', {})


class FinalDbMonitor(Monitor):
    """Reads the private DB after shutdown: outputs, states, jobs."""

    def finish(self, h, res, case):
        import json
        import os
        import sqlite3
        path = os.path.join(h.run_dir, '.service', 'db')
        res.db_outputs = {}
        res.db_states = {}
        res.db_jobs = []
        if not os.path.exists(path):
            return
        con = sqlite3.connect(f'file:{path}?mode=ro', uri=True)
        try:
            for cycle, name, fn, outs in con.execute(
                    'SELECT cycle, name, flow_nums, outputs FROM task_outputs'):
                o = json.loads(outs) if outs else {}
                names = set(o.keys()) if isinstance(o, dict) else set(o)
                res.db_outputs.setdefault((name, cycle), set()).update(names)
            for cycle, name, fn, status, sn in con.execute(
                    'SELECT cycle, name, flow_nums, status, submit_num '
                    'FROM task_states'):
                res.db_states[(name, cycle, fn)] = (status, sn)
            for row in con.execute(
                    'SELECT cycle, name, submit_num, submit_status, '
                    'run_status FROM task_jobs'):
                res.db_jobs.append(row)
        finally:
            con.close()
