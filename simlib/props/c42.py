"""C42 The subprocess pool runs every command once, within its bounds
(engine E3 poolsim: real SubProcPool, simulated child processes and clock)."""
import random

from ..boot import CLOCK
from ..core import Sim, derive_seed, jdump, write_global_config
from ..harness import global_text

PID = 'C42'
ENGINE = 'E3'
LEVEL = 'exploration'
LEVEL_TEXT = (
    'Seeded operation sequences (put commands of several shapes, process, '
    'clock advances, set_stopping, close, terminate) against the real '
    'SubProcPool with simulated children; invariants checked after every '
    'call and at quiescence.')
LEVEL_NOTE = (
    'Trusted: the SimProc child-process stand-in (poll/wait/communicate/'
    'kill) and the simulated clock. Pipe polling of real file descriptors '
    'is not exercised (SimProc has no pipes).')
RULE = (
    'One case = one generated batch of 3-14 commands (instant, slow, failing,'
    ' exceeding the process pool timeout, OSError at launch, ssh-255 shaped; '
    'cmd keys jobs-submit / jobs-poll / other; with and without a 255 '
    'callback) interleaved with process() calls at seeded clock advances and '
    'with set_stopping()/close()/terminate() at seeded points, pool size 1-4,'
    ' pool timeout 5-30 s. Distinct = distinct operation sequence; '
    'non-trivial = the pool was at its size limit at least once and a stop '
    'request arrived while commands were queued or running.')
ASSUMPTIONS = ['child processes are simulated; os.killpg is stubbed to mark '
               'the SimProc killed']
TIERS = {
    'quick': {'n': 6000, 'budget_s': 300, 'chunk': 100},
    'thorough': {'n': 200000, 'budget_s': 3000, 'chunk': 500},
}
EXPECTED_PROBES = ['pool_full', 'timeout_kill', 'stop_with_queued',
                   'ssh_255', 'oserror_at_launch', 'terminate_with_running']


def make_params(seed, tier):
    return {'seed': seed}


class Proc:
    _pid = 5000

    def __init__(self, eng, cmd, spec, now):
        Proc._pid += 1
        self.pid = Proc._pid
        self.args = cmd
        self.spec = spec
        self.eng = eng
        self.done_at = now + spec['dur']
        self.killed = False
        self.stdout = None
        self.stderr = None
        self.returncode = None

    def poll(self):
        if self.killed:
            self.returncode = -9
        elif CLOCK.t >= self.done_at:
            self.returncode = self.spec['rc']
        return self.returncode

    def wait(self, timeout=None):
        if self.poll() is None:
            CLOCK.t = self.done_at
            self.poll()
        return self.returncode

    def communicate(self, input=None, timeout=None):  # noqa: A002
        self.wait()
        return (self.spec.get('out', '').encode(), b'')

    def sim_kill(self):
        if self.returncode is not None or self.killed:
            return False
        self.killed = True
        self.eng.killed.append(self.spec['id'])
        return True


class Engine:
    def __init__(self, seed, params):
        self.rng = random.Random(derive_seed(seed, 'pool'))
        self.sim = Sim(seed)
        self.launched = []      # spec ids in launch order
        self.attempted = []
        self.killed = []
        self.calls = {}         # id -> list of ('cb'|'cb255')
        self.viol = []
        self.stopping_at = None

    def procopen(self, cmd, **kw):
        spec = self.specs[int(cmd[-1])]
        self.attempted.append(spec['id'])
        if spec.get('oserror'):
            self.sim.probe('oserror_at_launch')
            raise OSError(2, 'No such file or directory', cmd[0])
        if self.stopping_at is not None and spec['key'] == 'jobs-submit':
            self.viol.append(('jobs_submit_started_while_stopping',
                              {'cmd': spec['id']}))
        self.launched.append(spec['id'])
        return Proc(self, cmd, spec, CLOCK.t)

    def cb(self, ctx, sid):
        self.calls.setdefault(sid, []).append('cb')

    def cb255(self, ctx, sid):
        self.calls.setdefault(sid, []).append('cb255')


def gen_ops(rng):
    n = rng.randint(3, 14)
    specs = []
    for i in range(n):
        kind = rng.choice(['instant', 'instant', 'slow', 'fail', 'timeout',
                           'oserror', 'ssh255'])
        spec = {'id': i, 'kind': kind, 'rc': 0, 'dur': 0.0,
                'key': rng.choice(['jobs-submit', 'jobs-submit', 'jobs-poll',
                                   'other']),
                'with255': rng.random() < 0.5}
        if kind == 'slow':
            spec['dur'] = rng.choice([1.0, 3.0, 8.0])
        elif kind == 'fail':
            spec['rc'] = rng.choice([1, 2])
            spec['dur'] = rng.choice([0.0, 2.0])
        elif kind == 'timeout':
            spec['dur'] = 10000.0
        elif kind == 'oserror':
            spec['oserror'] = True
        elif kind == 'ssh255':
            spec['rc'] = 255
            spec['ssh'] = True
        specs.append(spec)
    ops = []
    pending = list(range(n))
    rng.shuffle(pending)
    stop_kind = rng.choice(['none', 'stopping', 'close', 'terminate',
                            'stopping+terminate'])
    stop_at = rng.randint(0, n + 3)
    step = 0
    while pending or step < stop_at + 2:
        if step == stop_at and stop_kind != 'none':
            for s in stop_kind.split('+'):
                ops.append(('stop', s))
        r = rng.random()
        if pending and r < 0.55:
            ops.append(('put', pending.pop()))
        elif r < 0.8:
            ops.append(('process',))
        else:
            ops.append(('advance', rng.choice([0.5, 1.0, 4.0, 12.0])))
        step += 1
        if step > 60:
            break
    for i in pending:
        ops.append(('put', i))
    return specs, ops


def run(params):
    seed = params['seed']
    rng = random.Random(derive_seed(seed, 'c42'))
    size = rng.randint(1, 4)
    timeout = rng.choice([5, 10, 30])
    specs = params.get('specs')
    ops = params.get('ops')
    if specs is None:
        specs, ops = gen_ops(rng)
    ops = [tuple(o) for o in ops]
    write_global_config(global_text(pool_size=size,
                                    pool_timeout=f'PT{timeout}S'))
    from .. import harness
    harness._GLOBAL_CACHE[0] = None
    import cylc.flow.subprocpool as spp
    from cylc.flow.subprocctx import SubProcContext
    CLOCK.reset()
    eng = Engine(seed, params)
    eng.specs = specs
    old_po, old_kill = spp.procopen, spp._killpg
    spp.procopen = eng.procopen
    spp._killpg = lambda proc, sig: proc.sim_kill()
    sim = eng.sim
    put = set()
    full_seen = False
    stop_with_work = False
    terminated = False
    try:
        pool = spp.SubProcPool()
        if pool.size != size:
            return {'error': f'pool size {pool.size} != configured {size}',
                    'violations': [], 'stats': {}}

        def check(after):
            for sid, c in eng.calls.items():
                if len(c) > 1:
                    eng.viol.append(('callback_called_twice', {
                        'cmd': specs[sid], 'calls': c, 'after': after}))
            if len(pool.runnings) > pool.size:
                eng.viol.append(('more_than_pool_size_running', {
                    'running': len(pool.runnings), 'size': pool.size,
                    'after': after}))

        for op in ops:
            if terminated:
                break
            if op[0] == 'put':
                sp = specs[op[1]]
                cmd = (['ssh', 'host', 'x'] if sp.get('ssh') else ['cylc', sp['key']]) + [str(sp['id'])]
                ctx = SubProcContext(sp['key'], cmd, host='host')
                kw = {}
                if sp['with255']:
                    kw['callback_255'] = eng.cb255
                    kw['callback_255_args'] = [sp['id']]
                pool.put_command(ctx, bad_hosts=set(), callback=eng.cb,
                                 callback_args=[sp['id']], **kw)
                put.add(sp['id'])
            elif op[0] == 'process':
                pool.process()
                if len(pool.runnings) == pool.size and pool.queuings:
                    full_seen = True
                    sim.probe('pool_full')
            elif op[0] == 'advance':
                CLOCK.advance(op[1])
            elif op[0] == 'stop':
                if pool.queuings or pool.runnings:
                    stop_with_work = True
                    if pool.queuings:
                        sim.probe('stop_with_queued')
                if op[1] == 'stopping':
                    pool.set_stopping()
                    eng.stopping_at = CLOCK.t
                elif op[1] == 'close':
                    pool.close()
                    eng.stopping_at = CLOCK.t
                elif op[1] == 'terminate':
                    if pool.runnings:
                        sim.probe('terminate_with_running')
                    eng.stopping_at = CLOCK.t
                    pool.terminate()
                    terminated = True
            check(op)
        # quiescence: let everything finish / time out
        if not terminated:
            for _ in range(200):
                if not pool.is_not_done():
                    break
                pool.process()
                check('drain')
                CLOCK.advance(timeout / 2 + 1.0)
            if pool.is_not_done():
                eng.viol.append(('pool_never_drains', {
                    'queued': len(pool.queuings), 'running': len(pool.runnings)}))
            pool.terminate()
        # exactly one callback per command
        missing = [sid for sid in sorted(put) if not eng.calls.get(sid)]
        preds = {}
        if missing:
            # known finding: queued commands dropped while stopping
            dropped_q = all(
                sid not in eng.attempted
                and eng.stopping_at is not None for sid in missing)
            eng.viol.append(('command_got_no_callback', {
                'commands': [specs[s] for s in missing][:6]}))
            if dropped_q:
                preds['command_got_no_callback'] = ['queued_command_dropped_while_stopping']
        for sid in put:
            sp = specs[sid]
            c = eng.calls.get(sid, [])
            if sp['kind'] == 'timeout' and sid in eng.launched and (
                    sid not in eng.killed):
                eng.viol.append(('timed_out_command_not_killed', {'cmd': sp}))
            if sp['kind'] == 'timeout' and sid in eng.killed:
                sim.probe('timeout_kill')
            if sp.get('ssh') and sid in eng.launched and c and (
                    sid not in eng.killed):
                sim.probe('ssh_255')
                want = 'cb255' if sp['with255'] else 'cb'
                if c[0] != want:
                    eng.viol.append(('wrong_callback_for_255', {
                        'cmd': sp, 'called': c}))
            elif c and c[0] == 'cb255':
                eng.viol.append(('callback_255_without_255', {'cmd': sp}))
    finally:
        spp.procopen, spp._killpg = old_po, old_kill
    out = []
    for rule, detail in eng.viol:
        out.append({'rule': rule, 'detail': detail, 'property': PID,
                    'predicates': preds.get(rule, []), 'choices': None,
                    'trace': [str(o) for o in ops][:80],
                    'replay_params': {'seed': seed, 'specs': specs,
                                      'ops': [list(o) for o in ops]}})
    nontriv = []
    if full_seen and stop_with_work:
        import hashlib
        nontriv = [hashlib.sha256(jdump([specs, ops, size, timeout]).encode()
                                  ).hexdigest()[:16]]
    return {
        'violations': out,
        'stats': {'faults': {}, 'probes': dict(sim.probes),
                  'sim_seconds': CLOCK.t, 'iterations': len(ops),
                  'digests': [], 'nontrivial': nontriv, 'pool_states': []},
        'sample': {'pool_size': size, 'pool_timeout_s': timeout,
                   'commands': specs[:6], 'operations': [list(o) for o in ops][:40],
                   'callbacks': {str(k): v for k, v in eng.calls.items()}},
    }
