"""C05 Internal queue limits (engine E1, exploration). See DESIGN.md section 7."""
import random

from ..core import derive_seed
from ..e1 import CommandDriver
from .common import generic_run, FinalDbMonitor, launched_instances

PID = 'C05'
ENGINE = 'E1'
LEVEL = 'exploration'
RULE = ("One case = generated workflow (wide fan-out) with 1-3 limited queues (limits 0-3, overlapping membership so that the last listing wins) + slow job submission + seeded schedule; in a third of the cases queued tasks are triggered by hand at seeded iterations (some in a paused workflow resumed in the same main-loop pass). After every release from the queues the set of preparing/submitted/running/awaiting-preparation members of each queue (recomputed from the real pool and the generator's own membership map) is compared with the limit (a manually triggered member counts: it may exceed the limit, a queue release on top of it may not); release order is compared with push order. Distinct = distinct (program, schedule digest); non-trivial = a queue limit was binding.")
ASSUMPTIONS = [
    'jobs, polls, submissions, message transport and the clock are simulated',
    'reference model / invariants cover the generated workflow sub-language',
]
TIERS = {
    'quick': {'n': 1000, 'budget_s': 420, 'chunk': 10},
    'thorough': {'n': 20000, 'budget_s': 3000, 'chunk': 25},
}
EXPECTED_PROBES = ['queue_limit_binding']


def make_params(seed, tier):
    return {'seed': seed}

KNOBS = {'n_tasks': (4, 8), 'p_lone': 0.6, 'max_lines': 6, 'p_offset': 0.2,
         'p_retries': 0.2}


def prog_hook(prog, rng):
    names = list(prog.tasks)
    nq = rng.randint(1, 3)
    prog.queues = {}
    if rng.random() < 0.5:
        prog.queues['default'] = (rng.randint(1, 3), [])
    for i in range(nq):
        members = rng.sample(names, rng.randint(1, max(1, len(names) - 1)))
        prog.queues[f'q{i}'] = (rng.choice([0, 1, 1, 2, 2, 3]), members)


class TrigQueued(CommandDriver):
    """Triggers a task that is waiting in a queue (picked at injection time)."""

    def __init__(self, schedule, manual):
        super().__init__(schedule)
        self.manual = manual
        self.res = None

    def attach(self, h, res, case):
        self.res = res
        super().attach(h, res, case)

    def resolve(self, h, c):
        if 'pick' not in c:
            return c['kwargs']
        prog = self.res.prog
        cand = sorted(i.identity for i in h.schd.pool.get_tasks()
                      if i.state.is_queued and not i.state.is_held
                      and i.tdef.name in prog.tasks)
        if not cand:
            return None
        ident = cand[int(c['pick'] * len(cand)) % len(cand)]
        cyc, name = ident.split('/')
        self.manual.add((name, prog.ppoint(cyc)))
        self.res.sim.probe('queued_task_triggered')
        kw = dict(c['kwargs'])
        kw['tasks'] = [ident]
        return kw


def gen_cmds(seed):
    r = random.Random(derive_seed(seed, 'c05-cmds'))
    cmds = []
    paused = r.random() < 0.4
    it = r.randint(2, 20)
    if paused:
        cmds.append({'iter': max(1, it - r.randint(1, 3)), 'slot': 0,
                     'name': 'pause', 'kwargs': {}})
    for _ in range(r.randint(1, 3)):
        cmds.append({'iter': it, 'slot': r.randint(0, 1),
                     'name': 'force_trigger_tasks', 'pick': r.random(),
                     'kwargs': {'flow': []}})
        if paused and r.random() < 0.7:
            # trigger and resume handled in the same main-loop pass
            cmds.append({'iter': it, 'slot': 1, 'name': 'resume',
                         'kwargs': {}})
            paused = False
        it += r.randint(0, 6)
    if paused:
        cmds.append({'iter': it + 1, 'slot': 0, 'name': 'resume',
                     'kwargs': {}})
    cmds.sort(key=lambda c: (c['iter'], c['slot']))
    return cmds


def run(params):
    kw = {}
    if params['seed'] % 3 == 0:
        # a third of the cases: queued tasks are triggered by hand, some in
        # a paused workflow that is resumed in the same pass
        manual = set()
        kw = {'manual': manual, 'commands': True,
              'monitors': [TrigQueued(gen_cmds(params['seed']), manual)]}
    return generic_run(PID, params, knobs=KNOBS, policy='complete',
                       prog_hook=prog_hook, probe_key='queue_limit_binding',
                       world_cfg={'submit_lat': (0.0, 2.0, 5.0),
                                  'tail_opts': (2.0, 5.0, 1.0, 9.0)}, **kw)
