"""C05 Internal queue limits (engine E1, exploration). See DESIGN.md section 7."""
from .common import generic_run, FinalDbMonitor, launched_instances

PID = 'C05'
ENGINE = 'E1'
LEVEL = 'exploration'
RULE = ("One case = generated workflow (wide fan-out) with 1-3 limited queues (limits 0-3, overlapping membership so that the last listing wins) + slow job submission + seeded schedule. After every release from the queues the set of preparing/submitted/running/awaiting-preparation members of each queue (recomputed from the real pool and the generator's own membership map) is compared with the limit; release order is compared with push order. Distinct = distinct (program, schedule digest); non-trivial = a queue limit was binding.")
ASSUMPTIONS = [
    'jobs, polls, submissions, message transport and the clock are simulated',
    'reference model / invariants cover the generated workflow sub-language',
]
TIERS = {
    'quick': {'n': 1000, 'budget_s': 420, 'chunk': 10},
    'thorough': {'n': 20000, 'budget_s': 3000, 'chunk': 25},
}
EXPECTED_PROBES = ['queue_limit_binding']


def make_params(seed, tier):
    return {'seed': seed}

KNOBS = {'n_tasks': (4, 8), 'p_lone': 0.6, 'max_lines': 6, 'p_offset': 0.2,
         'p_retries': 0.2}


def prog_hook(prog, rng):
    names = list(prog.tasks)
    nq = rng.randint(1, 3)
    prog.queues = {}
    if rng.random() < 0.5:
        prog.queues['default'] = (rng.randint(1, 3), [])
    for i in range(nq):
        members = rng.sample(names, rng.randint(1, max(1, len(names) - 1)))
        prog.queues[f'q{i}'] = (rng.choice([0, 1, 1, 2, 2, 3]), members)


def run(params):
    return generic_run(PID, params, knobs=KNOBS, policy='complete',
                       prog_hook=prog_hook, probe_key='queue_limit_binding',
                       world_cfg={'submit_lat': (0.0, 2.0, 5.0),
                                  'tail_opts': (2.0, 5.0, 1.0, 9.0)})
