"""Command line: check / replay / selftest."""
import argparse
import os
import sys


def main(argv=None):
    ap = argparse.ArgumentParser(prog='verif')
    sub = ap.add_subparsers(dest='cmd', required=True)
    c = sub.add_parser('check')
    c.add_argument('property')
    c.add_argument('--tier', default=os.environ.get('VERIF_TIER', 'quick'),
                   choices=['quick', 'thorough'])
    c.add_argument('--seed', type=int,
                   default=int(os.environ.get('VERIF_SEED', '1')))
    c.add_argument('-n', type=int, default=None)
    c.add_argument('--workers', type=int, default=None)
    c.add_argument('--budget', type=int, default=None)
    r = sub.add_parser('replay')
    r.add_argument('path')
    s = sub.add_parser('selftest')
    s.add_argument('--n', type=int, default=6)
    sub.add_parser('setup')
    args = ap.parse_args(argv)

    from . import boot  # noqa: F401  (patches clock, imports cylc)
    from . import runner
    if args.cmd == 'check':
        return runner.check(args.property.upper(), args.tier, args.seed,
                            n_cases=args.n, workers=args.workers,
                            budget_s=args.budget)
    if args.cmd == 'replay':
        return runner.replay(args.path)
    if args.cmd == 'selftest':
        from . import selftest
        return selftest.main(args.n)
    if args.cmd == 'setup':
        import cylc.flow
        print('cylc.flow from', cylc.flow.__file__)
        for d in ('evidence', 'replays'):
            os.makedirs(os.path.join(runner.VERIF, d), exist_ok=True)
        return 0
    return 2


if __name__ == '__main__':
    sys.exit(main())
