"""Drive the real Scheduler on the simulated loop against a World."""
import asyncio
import logging
import os
import shutil

from . import boot
from .boot import CLOCK
from .core import (
    SimLivelock,
    DBCTL, HarnessError, Seams, SimCrash, SimQueue, SimServer, UUIDS,
    run_coro, write_global_config,
)

GLOBAL_DEFAULT = """
[scheduler]
    process pool size = {pool_size}
    process pool timeout = {pool_timeout}
    [[host self-identification]]
        method = hardwired
        host = localhost
    [[main loop]]
        plugins = {plugins}
[platforms]
    [[localhost]]
        hosts = localhost
        submission polling intervals = {sub_poll}
        execution polling intervals = {exe_poll}
"""


def global_text(pool_size=4, pool_timeout='PT10M', plugins='',
                sub_poll='PT10S', exe_poll='PT10S'):
    return GLOBAL_DEFAULT.format(
        pool_size=pool_size, pool_timeout=pool_timeout, plugins=plugins,
        sub_poll=sub_poll, exe_poll=exe_poll)


class LogCapture(logging.Handler):
    def __init__(self):
        super().__init__(level=logging.DEBUG)
        self.records = []

    def emit(self, record):
        try:
            msg = record.getMessage()
        except Exception:
            msg = str(record.msg)
        if record.exc_info:
            import traceback
            try:
                msg += '\n' + ''.join(
                    traceback.format_exception(*record.exc_info))[-1500:]
            except Exception:
                pass
        self.records.append((record.levelno, msg))


_WF_COUNTER = [0]
_GLOBAL_CACHE = [None]


class StopInfo:
    def __init__(self):
        self.reason = None       # 'stop:<msg>' | 'error:<type>:<msg>' | 'crash' | 'cap'
        self.exc = None


class Harness:
    """One workflow on disk + a world; may run several scheduler
    incarnations (restarts) against it."""

    MAX_ITER = 3000

    def __init__(self, sim, flow_text, plan_fn, world, gtext=None,
                 opts=None, wf_name=None, epoch=None, extra_files=None):
        Seams.install()
        CLOCK.reset(epoch if epoch is not None else 1_600_000_000.0)
        UUIDS.reset()
        DBCTL.reset()
        from .world import SimProc
        SimProc._pid = 100000
        self.sim = sim
        self.world = world
        self.flow_text = flow_text
        self.opts = dict(opts or {})
        self.gtext = gtext or global_text()
        _WF_COUNTER[0] += 1
        self.wf = wf_name or f'w{os.getpid()}x{_WF_COUNTER[0]}'
        self.run_dir = os.path.join(boot.HOME, 'cylc-run', self.wf)
        os.makedirs(self.run_dir, exist_ok=True)
        with open(os.path.join(self.run_dir, 'flow.cylc'), 'w') as fh:
            fh.write(flow_text)
        for rel, text in (extra_files or {}).items():
            path = os.path.join(self.run_dir, rel)
            os.makedirs(os.path.dirname(path), exist_ok=True)
            with open(path, 'w') as fh:
                fh.write(text)
        self.schd = None
        self.iterations = 0
        self.total_iterations = 0
        self.incarnation = 0
        self.log = LogCapture()
        self.iter_hooks = []        # callables(harness) after each main loop
        self.pre_iter_hooks = []    # callables(harness) before each main loop
        self.start_hooks = []       # callables(harness) after start()
        self.intercept_hooks = []   # callables(harness, label)
        self.publish_hooks = []     # callables(harness, item)
        self.stall_gap = None       # extra seconds after an iteration
        self.max_iter = self.MAX_ITER
        self.stop_info = None
        self.stops = []
        self._installed_wrappers = False
        world.intercept_hooks.append(self._world_intercept)

    # ------------------------------------------------------------------
    def _world_intercept(self, label):
        self._run_hooks(self.intercept_hooks, label)

    def _queue_hook(self, label):
        if label == 'message_queue':
            self.world.deliver_due_messages()
        self.world.intercept(label)

    def rewrite_flow(self, text):
        self.flow_text = text
        with open(os.path.join(self.run_dir, 'flow.cylc'), 'w') as fh:
            fh.write(text)

    # ------------------------------------------------------------------
    def _setup_process_state(self):
        from cylc.flow import LOG
        import cylc.flow.flags
        if _GLOBAL_CACHE[0] != (self.gtext, boot.CONF):
            write_global_config(self.gtext)
            _GLOBAL_CACHE[0] = (self.gtext, boot.CONF)
        Seams.world = self.world
        SimServer.on_publish = self._on_publish
        for h in list(LOG.handlers):
            LOG.removeHandler(h)
        LOG.addHandler(self.log)
        LOG.setLevel(logging.INFO)
        cylc.flow.flags.verbosity = 0
        DBCTL.handler = self._db_handler
        DBCTL.after_commit = None

    def _db_handler(self, kind, op, stmt):
        # every statement on the private DB is a durable-effect point
        if kind == 'pri':
            self.world.effect('db', op)
        if self.db_fault is not None:
            self.db_fault(kind, op, stmt)

    db_fault = None

    def _on_publish(self, schd, item):
        self._run_hooks(self.publish_hooks, item)

    def _make_scheduler(self):
        from cylc.flow.scheduler import Scheduler
        from cylc.flow.scheduler_cli import RunOptions
        opts = {'paused_start': False, 'run_mode': 'live'}
        if self.incarnation == 0:
            opts.update(self.opts)
        else:
            # restart: start options are not valid
            for k, v in self.opts.items():
                if k not in ('icp', 'startcp', 'starttask', 'fcp', 'stopcp',
                             'holdcp'):
                    opts[k] = v
        options = RunOptions(**opts)
        schd = Scheduler(self.wf, options)
        self._wrap_instance(schd)
        return schd

    def _run_hooks(self, hooks, *args):
        import traceback
        for hook in hooks:
            try:
                hook(self, *args)
            except (HarnessError, SimCrash):
                raise
            except Exception as exc:
                raise HarnessError(
                    'harness hook failed: ' + traceback.format_exc()[-1500:]
                ) from exc

    def _wrap_instance(self, schd):
        h = self
        orig_init = schd.initialise
        orig_loop = schd._main_loop

        async def initialise():
            await orig_init()
            schd.command_queue = SimQueue('command_queue', h._queue_hook)
            schd.message_queue = SimQueue('message_queue', h._queue_hook)
            schd.ext_trigger_queue = SimQueue('ext_trigger_queue', h._queue_hook)

        async def main_loop():
            h.iterations += 1
            h.total_iterations += 1
            if h.iterations > h.max_iter:
                # the run never ends (e.g. a task resubmitted for ever):
                # end it as a livelock so that the end-of-run oracles judge it
                raise SimLivelock(f'{h.max_iter} main-loop iterations')
            CLOCK.sleeps = 0
            h._run_hooks(h.pre_iter_hooks)
            await orig_loop()
            h._run_hooks(h.iter_hooks)
            if h.stall_gap:
                gap = h.stall_gap(h)
                if gap:
                    CLOCK.advance(gap)

        schd.initialise = initialise
        schd._main_loop = main_loop

    # ------------------------------------------------------------------
    def run_once(self):
        """Run one scheduler incarnation until it stops/crashes.

        Returns StopInfo.
        """
        self._setup_process_state()
        info = StopInfo()
        self.stop_info = info
        self.iterations = 0
        schd = self._make_scheduler()
        self.schd = schd
        sim = self.sim

        async def go():
            await schd.install()
            await schd.start()
            self.world.scheduler_up(schd)
            self._run_hooks(self.start_hooks)
            await schd.run_scheduler()

        try:
            run_coro(go())
            info.reason = 'stop:' + str(self._shutdown_reason())
        except SimCrash as exc:
            info.reason = 'crash'
            info.exc = exc
            self._after_crash()
        except HarnessError:
            self._after_crash()
            raise
        except SimLivelock as exc:
            # the scheduler never finished a main-loop iteration
            info.reason = f'error:Livelock:{exc}'
            info.exc = exc
            self._after_crash()
        except Exception as exc:  # scheduler error stop (re-raised)
            info.reason = f'error:{type(exc).__name__}:{exc}'
            info.exc = exc
            # shutdown() has been run by the scheduler; make sure handles
            # are closed
            DBCTL.close_all()
        finally:
            self.world.scheduler_down()
            self.incarnation += 1
        sim.log('scheduler exit', info.reason)
        self.stops.append(info.reason)
        return info

    def _shutdown_reason(self):
        # last "Workflow shutting down - X" log line
        for lvl, msg in reversed(self.log.records):
            if msg.startswith('Workflow shutting down'):
                return msg.split(' - ', 1)[1] if ' - ' in msg else msg
        return 'unknown'

    def _after_crash(self):
        """Process death: memory gone, DB handles closed without commit."""
        DBCTL.close_all()
        self.schd = None

    def cleanup(self):
        DBCTL.close_all()
        Seams.world = None
        shutil.rmtree(self.run_dir, ignore_errors=True)

    # convenience ------------------------------------------------------
    def pool_snapshot(self):
        schd = self.schd
        out = {}
        if schd is None or not hasattr(schd, 'pool'):
            return out
        for itask in schd.pool.get_tasks():
            st = itask.state
            out[itask.identity] = {
                'status': st.status,
                'held': st.is_held,
                'queued': st.is_queued,
                'runahead': st.is_runahead,
                'flows': sorted(itask.flow_nums),
                'submit_num': itask.submit_num,
                'outputs': sorted(
                    lbl for lbl, _, done in itask.state.outputs if done
                ) if False else sorted(
                    itask.state.outputs.get_completed_outputs()),
                'manual': itask.is_manual_submit,
            }
        return out
