"""Process bootstrap: must be imported before anything from cylc.flow.

Sets a private HOME / global-config dir on tmpfs, replaces time.time and
time.sleep by the simulated clock (so that every ``from time import time``
inside cylc binds the simulated function), then imports cylc.flow.
"""
import atexit
import os
import shutil
import sys
import tempfile
import time as _time

REPO = os.environ.get('VERIF_REPO', '/repo')
GUARD = 'CYLC_FLOW_VERIF'
os.environ[GUARD] = '1'

_real_time = _time.time
_real_sleep = _time.sleep


class SimClock:
    """Simulated clock: relative seconds ``t`` plus an epoch.

    ``time.time()`` -> epoch + t.  The asyncio loop reads ``t`` only
    (epoch-sized floats break asyncio's clock resolution arithmetic).
    """

    def __init__(self):
        self.t = 0.0
        self.epoch = 1_600_000_000.0
        self.on_sleep = None  # callback(duration) used by blocking sleeps
        self.reads = 0
        self.sleeps = 0       # blocking sleeps since the last iteration start
        self.sleep_cap = 4000

    def reset(self, epoch=1_600_000_000.0):
        self.t = 0.0
        self.epoch = float(epoch)
        self.on_sleep = None
        self.reads = 0
        self.sleeps = 0

    def time(self):
        self.reads += 1
        return self.epoch + self.t

    def sleep(self, secs):
        # Blocking sleep inside the scheduler thread: other parties (jobs,
        # subprocesses) progress meanwhile -> advance simulated time.
        if secs and secs > 0:
            self.t += float(secs)
        self.sleeps += 1
        if self.sleep_cap and self.sleeps > self.sleep_cap:
            from .core import SimLivelock
            self.sleeps = 0
            raise SimLivelock(
                f'{self.sleep_cap} blocking sleeps within one main-loop '
                'iteration')
        if self.on_sleep is not None:
            self.on_sleep(secs)

    def advance(self, secs):
        if secs > 0:
            self.t += float(secs)


CLOCK = SimClock()


def _scratch_root():
    base = os.environ.get('VERIF_SCRATCH')
    if not base:
        base = '/dev/shm' if os.path.isdir('/dev/shm') and os.access(
            '/dev/shm', os.W_OK) else tempfile.gettempdir()
    return base


SCRATCH = tempfile.mkdtemp(prefix='cylcsim-', dir=_scratch_root())
_OWNER_PID = os.getpid()


def _cleanup():
    if os.getpid() == _OWNER_PID:
        shutil.rmtree(SCRATCH, ignore_errors=True)


atexit.register(_cleanup)

HOME = os.path.join(SCRATCH, 'home')
CONF = os.path.join(SCRATCH, 'conf')
os.makedirs(HOME, exist_ok=True)
os.makedirs(CONF, exist_ok=True)
os.environ['HOME'] = HOME
os.environ['CYLC_CONF_PATH'] = CONF
os.environ.pop('CYLC_SITE_CONF_PATH', None)
os.environ['TZ'] = 'UTC'
_time.tzset()
for _k in list(os.environ):
    if _k.startswith('CYLC_') and _k not in (GUARD, 'CYLC_CONF_PATH'):
        os.environ.pop(_k)

# make sure we import cylc from the repo working tree
if REPO not in sys.path:
    sys.path.insert(0, REPO)

_time.time = CLOCK.time
_time.sleep = CLOCK.sleep

import cylc.flow  # noqa: E402
import cylc.flow.scheduler  # noqa: E402,F401
import cylc.flow.scheduler_cli  # noqa: E402,F401
import cylc.flow.network.resolvers  # noqa: E402,F401

if not os.path.realpath(cylc.flow.__file__).startswith(
        os.path.realpath(REPO) + os.sep):
    raise RuntimeError(
        f'cylc.flow imported from {cylc.flow.__file__}, expected {REPO}')


def new_private_home(tag):
    """Give a forked worker its own HOME/conf below the parent's scratch."""
    global HOME, CONF
    HOME = os.path.join(SCRATCH, f'home-{tag}')
    CONF = os.path.join(SCRATCH, f'conf-{tag}')
    os.makedirs(HOME, exist_ok=True)
    os.makedirs(CONF, exist_ok=True)
    os.environ['HOME'] = HOME
    os.environ['CYLC_CONF_PATH'] = CONF
