"""Batch runner: fork workers after importing cylc, run cases, collect
violations / known findings / coverage, write evidence and replay files."""
import concurrent.futures as cf
import faulthandler
import hashlib
import importlib
import json
import multiprocessing as mp
import os
import signal
import sys
import time as _time
import traceback

VERIF = os.path.dirname(os.path.dirname(os.path.abspath(__file__)))
REAL_TIME = None


def real_time():
    from . import boot
    return boot._real_time()


def load_prop(pid):
    return importlib.import_module(f'simlib.props.{pid.lower()}')


def load_known():
    path = os.path.join(VERIF, 'known_findings.json')
    if not os.path.exists(path):
        return []
    with open(path) as fh:
        return json.load(fh)


def match_known(pid, viol, known):
    """A violation is known iff an open entry of the same property has the
    same rule and the violation carries that entry's predicate."""
    for k in known:
        if k.get('property') != pid or k.get('status') != 'open':
            continue
        if k.get('rule') == viol.get('rule') and (
                k.get('predicate') in (viol.get('predicates') or [])):
            return k
    return None


_WORKER = {}


def _worker_init(tag_base):
    from . import boot
    boot.new_private_home(f'{tag_base}-{os.getpid()}')
    faulthandler.enable()


def _run_chunk(args):
    pid, tier, seeds, per_case_timeout = args
    from . import boot
    mod = load_prop(pid)
    out = []
    for s in seeds:
        t0 = boot._real_time()
        faulthandler.dump_traceback_later(per_case_timeout, exit=True)
        try:
            params = mod.make_params(s, tier)
            r = mod.run(params)
            r['seed'] = s
            r['params'] = params
        except Exception as exc:
            r = {'seed': s, 'error': 'driver exception: ' + ''.join(
                traceback.format_exception(type(exc), exc, exc.__traceback__))[-2000:],
                'violations': [], 'stats': {}}
        finally:
            faulthandler.cancel_dump_traceback_later()
        r['wall'] = boot._real_time() - t0
        out.append(r)
    return out


def check(pid, tier, seed, n_cases=None, workers=None, budget_s=None):
    from . import boot
    mod = load_prop(pid)
    t_start = boot._real_time()
    conf = mod.TIERS[tier]
    n = n_cases or conf['n']
    budget = budget_s or conf.get('budget_s', 600)
    workers = workers or min(int(os.environ.get('VERIF_WORKERS', '16')),
                             os.cpu_count() or 1)
    chunk = conf.get('chunk', 8)
    per_case_timeout = conf.get('case_timeout', 120)
    from .core import derive_seed
    seeds = [derive_seed(seed, pid, i) % (2 ** 48) for i in range(n)]
    chunks = [seeds[i:i + chunk] for i in range(0, len(seeds), chunk)]
    results = []
    harness_errors = []
    ctx = mp.get_context('fork')
    done_chunks = 0
    with cf.ProcessPoolExecutor(
            max_workers=workers, mp_context=ctx,
            initializer=_worker_init, initargs=(f'{pid}-{tier}',)) as ex:
        futs = {ex.submit(_run_chunk, (pid, tier, c, per_case_timeout)): c
                for c in chunks}
        try:
            for f in cf.as_completed(futs, timeout=budget):
                try:
                    results.extend(f.result())
                    done_chunks += 1
                except Exception as exc:
                    harness_errors.append(f'worker died: {exc!r} chunk={futs[f][:2]}')
                    # A broken pool terminates its workers with SIGTERM, which
                    # the scheduler code under test handles (graceful stop):
                    # kill them outright or the shutdown below never returns.
                    for p in list((ex._processes or {}).values()):
                        try:
                            os.kill(p.pid, signal.SIGKILL)
                        except Exception:
                            pass
        except cf.TimeoutError:
            harness_errors.append(
                f'batch wall budget {budget}s exceeded '
                f'({done_chunks}/{len(chunks)} chunks done)')
            for f in futs:
                f.cancel()
            for p in list(ex._processes.values()):
                try:
                    os.kill(p.pid, signal.SIGKILL)
                except Exception:
                    pass
    wall = boot._real_time() - t_start
    return finish(pid, tier, seed, mod, results, harness_errors, wall)


def generic_minimise(mod, pid, rep, budget_s=45.0, max_runs=60):
    """Shrink a failing case while the same rule keeps firing: (1) operator
    commands / stops / crash points the driver resolved are dropped one at a
    time, (2) recorded fault and scheduling choices are reset to the benign
    value 0 in halving blocks (delta debugging on the non-zero positions).
    The program itself is not shrunk (it is small by construction)."""
    from . import boot
    t0 = boot._real_time()
    rule = rep['rule']
    runs = [0]

    def fires(params, choices):
        if runs[0] >= max_runs or boot._real_time() - t0 > budget_s:
            return None
        runs[0] += 1
        p = dict(params)
        if choices is not None:
            p['choices'] = list(choices)
        try:
            r = mod.run(p)
        except Exception:
            return False
        if r.get('error'):
            return False
        for v in r.get('violations', []):
            if v.get('property', pid) == pid and v['rule'] == rule:
                return v
        return False

    params = dict(rep['params'])
    choices = rep.get('choices')
    if choices is None:
        return rep
    v0 = fires(params, choices)
    if not v0:
        rep['minimised'] = {'reproduced_before_shrinking': bool(v0)}
        return rep
    # the effective choice list of the replayed run
    choices = list(v0.get('choices') or choices)
    n0 = sum(1 for c in choices if c)
    nz = [i for i, c in enumerate(choices) if c]
    block = max(1, len(nz) // 2)
    while block >= 1 and nz:
        i = 0
        progressed = False
        while i < len(nz):
            cand = list(choices)
            for j in nz[i:i + block]:
                cand[j] = 0
            v = fires(params, cand)
            if v is None:
                block = 0
                break
            if v:
                choices = list(v.get('choices') or cand)
                nz = [k for k, c in enumerate(choices) if c]
                progressed = True
                v0 = v
            else:
                i += block
        if block <= 1 and not progressed:
            break
        block = block // 2 if block > 1 else (1 if progressed else 0)
    rep['choices'] = choices
    rep['detail'] = v0.get('detail', rep.get('detail'))
    rep['trace'] = v0.get('trace', rep.get('trace'))
    rep['minimised'] = {'nonzero_choices_before': n0,
                        'nonzero_choices_after': sum(1 for c in choices if c),
                        'reruns': runs[0]}
    return rep


def finish(pid, tier, seed, mod, results, harness_errors, wall):
    known = load_known()
    viols = []
    known_hits = {}
    cross = {}
    fault_counts = {}
    probes = {}
    digests = set()
    nontrivial = set()
    pool_states = set()
    sim_seconds = 0.0
    iterations = 0
    samples = []
    extra = {}
    for r in results:
        if r.get('error'):
            harness_errors.append(f'seed {r["seed"]}: {r["error"][-800:]}')
            continue
        st = r.get('stats', {})
        for k, v in st.get('faults', {}).items():
            fault_counts[k] = fault_counts.get(k, 0) + v
        for k, v in st.get('probes', {}).items():
            probes[k] = probes.get(k, 0) + v
        sim_seconds += st.get('sim_seconds', 0.0)
        iterations += st.get('iterations', 0)
        for d in st.get('digests', []):
            digests.add(d)
        for d in st.get('nontrivial', []):
            nontrivial.add(d)
        for d in st.get('pool_states', []):
            pool_states.add(d)
        for k, v in st.get('extra', {}).items():
            if isinstance(v, (int, float)):
                extra[k] = extra.get(k, 0) + v
        if r.get('sample') is not None and len(samples) < 3:
            samples.append(r['sample'])
        for v in r.get('violations', []):
            vp = v.get('property', pid)
            v['seed'] = r['seed']
            if vp != pid:
                cross.setdefault(vp, []).append(
                    {'rule': v['rule'], 'seed': r['seed']})
                continue
            k = match_known(pid, v, known)
            if k is not None:
                known_hits.setdefault(k['id'], []).append(r['seed'])
            else:
                v['params'] = v.get('replay_params') or r['params']
                viols.append(v)
    # report
    os.makedirs(os.path.join(VERIF, 'replays'), exist_ok=True)
    os.makedirs(os.path.join(VERIF, 'evidence'), exist_ok=True)
    seen_sig = set()
    lines = []
    for v in viols:
        sig = (v['rule'],)
        if sig in seen_sig and len(seen_sig) > 0:
            # one replay per distinct rule (first = smallest index)
            continue
        seen_sig.add(sig)
        path = os.path.join(
            VERIF, 'replays', f'{pid}-{v["seed"]}-{v["rule"]}.json')
        rep = {'property': pid, 'tier': tier, 'rule': v['rule'],
               'detail': v.get('detail'), 'params': v['params'],
               'pythonhashseed': os.environ.get('PYTHONHASHSEED'),
               'choices': v.get('choices'), 'trace': v.get('trace')}
        try:
            if hasattr(mod, 'minimise'):
                rep = mod.minimise(rep) or rep
            elif len(lines) < 3 and os.environ.get('VERIF_MINIMISE', '1') != '0':
                rep = generic_minimise(mod, pid, rep)
        except Exception as exc:   # minimiser trouble must not hide the bug
            rep['minimise_error'] = repr(exc)
        with open(path, 'w') as fh:
            json.dump(rep, fh, indent=1, default=str)
        lines.append(f'VIOLATION property={pid} replay={path}')
    known_by_id = {k['id']: k for k in known}
    for kid, seeds in sorted(known_hits.items()):
        k = known_by_id[kid]
        print(f'KNOWN-FINDING: property={pid} {k["id"]}: {k["summary"]} '
              f'(matched {len(seeds)} runs, e.g. seed {seeds[0]})')
    for ln in lines:
        print(ln)
    n_ok = sum(r.get('evaluations', 1) for r in results
               if not r.get('error'))
    evid = {
        'property_id': pid,
        'tier': tier,
        'seed': seed,
        'level': mod.LEVEL,
        'wall_s': round(wall, 2),
        'violations': len(viols),
        'coverage': {
            'evaluations': n_ok,
            'distinct_nontrivial': len(nontrivial),
            'rule': mod.RULE,
            'samples': samples or [None],
            'runs_per_hour': int(n_ok / wall * 3600) if wall > 0 else 0,
            'sim_seconds': round(sim_seconds, 1),
            'main_loop_iterations': iterations,
            'fault_counts': fault_counts,
            'probes': probes,
            'distinct_schedule_digests': len(digests),
            'distinct_pool_state_digests': len(pool_states),
            'components': COMPONENTS.get(getattr(mod, 'ENGINE', 'E1')),
            'cross_findings': {k: len(v) for k, v in cross.items()},
            'known_findings_matched': {k: len(v) for k, v in known_hits.items()},
            'harness_errors': harness_errors[:5],
            'exhaustive': bool(getattr(mod, 'EXHAUSTIVE', False)),
            **({'exhaustive_dimensions': mod.EXHAUSTIVE_DIMS}
               if hasattr(mod, 'EXHAUSTIVE_DIMS') else {}),
            **extra,
        },
        'assumptions': getattr(mod, 'ASSUMPTIONS', []),
    }
    zero = [k for k in getattr(mod, 'EXPECTED_PROBES', []) if not probes.get(k)]
    if zero:
        evid['coverage']['probe_warnings'] = zero
    with open(os.path.join(VERIF, 'evidence', f'{pid}.json'), 'w') as fh:
        json.dump(evid, fh, indent=1, default=str)
    print(f'{pid} {tier}: {n_ok} runs, {len(nontrivial)} distinct non-trivial,'
          f' {len(viols)} violations, {sum(len(v) for v in known_hits.values())}'
          f' known-finding hits, {len(harness_errors)} harness errors,'
          f' {wall:.1f}s wall, {sim_seconds:.0f}s simulated')
    if harness_errors:
        for e in harness_errors[:5]:
            print('HARNESS-ERROR:', e, file=sys.stderr)
    if viols:
        return 1
    if harness_errors or n_ok == 0:
        return 2
    return 0


COMPONENTS = {
    'E1': {
        'real': ['Scheduler (start/run_scheduler/_main_loop/shutdown)',
                 'TaskPool', 'TaskProxy/TaskState/TaskOutputs/Prerequisite',
                 'TaskEventsManager', 'TaskJobManager', 'SubProcPool',
                 'XtriggerManager', 'BroadcastMgr', 'FlowMgr', 'DataStoreMgr',
                 'WorkflowDatabaseManager + CylcWorkflowDAO on real SQLite',
                 'WorkflowConfig/parsec/graph parser/cycling', 'commands',
                 'command_validation', 'Resolvers', 'task queues',
                 'job file writer', 'workflow_files (contact file, keys)'],
        'stub': ['ZMQ server/publisher/curve auth (SimServer)',
                 'every child process (SimProc via procopen seam)',
                 'bash -n job script check', 'process liveness check',
                 'wall clock (SimClock)', 'uuid4', 'server thread/barrier'],
    },
    'E2': {'real': ['WorkflowDatabaseManager', 'CylcWorkflowDAO',
                    'SQLite (files on tmpfs)'],
           'stub': ['sqlite3.connect wrapper injecting errors/crashes',
                    'task proxies (lightweight stand-ins)']},
    'E3': {'real': ['SubProcPool', 'SubProcContext'],
           'stub': ['child processes (SimProc)', 'os.killpg', 'wall clock']},
    'E4': {'real': ['Scheduler start-up', 'BroadcastMgr', 'Resolvers.broadcast',
                    'WorkflowDatabaseManager', 'SQLite'],
           'stub': ['as E1']},
    'E5': {'real': ['install_workflow', 'reinstall_workflow', 'clean',
                    'rsync (real binary)', 'filesystem (tmpfs)'],
           'stub': ['fault wrappers on Popen/mkdir/symlink']},
}


def replay(path):
    with open(path) as fh:
        rep = json.load(fh)
    pid = rep['property']
    mod = load_prop(pid)
    params = rep['params']
    if rep.get('choices') is not None:
        params = dict(params)
        params['choices'] = rep['choices']
    r = mod.run(params)
    hits = [v for v in r.get('violations', [])
            if v.get('property', pid) == pid and v['rule'] == rep['rule']]
    if r.get('error'):
        print('HARNESS-ERROR during replay:', r['error'])
        return 2
    if hits:
        print(f'REPRODUCED property={pid} rule={rep["rule"]}')
        print(json.dumps(hits[0].get('detail'), default=str)[:2000])
        return 1
    print(f'NOT REPRODUCED property={pid} rule={rep["rule"]}')
    return 0
