"""Workflow generator: an AST that is the oracle's source of truth, plus
its rendering as flow.cylc text (the only thing cylc sees).

Integer cycling: points are ints.  Datetime cycling: points are ints counting
hours from ``Program.base`` (rendered as CCYYMMDDThhmmZ); steps are multiples
of 6 hours.
"""
import datetime as _dt
import random

# Names include prefix/suffix/substring pairs.  Deliberately avoided (cylc
# builds a wrong conditional expression for them -- C13 territory, not claimed
# by this technique): a hyphenated name whose prefix is another task name
# ('a' with 'a-b'), and a custom output named like a task.
NAMES = ['a', 'b', 'aa', 'a_b', 'ab', 'ba', 'c', 'q-r', 'bb', 'cc', 'c1', 'x']
CUSTOMS = ['ox', 'oy', 'out1']
STD_OUT = ('submitted', 'started', 'succeeded', 'failed', 'submit-failed',
           'expired')
QUAL = {  # output -> graph qualifier
    'succeeded': 'succeed', 'failed': 'fail', 'started': 'start',
    'submitted': 'submit', 'submit-failed': 'submit-fail',
    'expired': 'expire',
}


class Atom:
    """task[offset]:output  (offset kinds: rel, icp, abs)."""
    __slots__ = ('task', 'kind', 'off', 'output')

    def __init__(self, task, output='succeeded', kind='rel', off=0):
        self.task = task
        self.kind = kind      # 'rel' | 'icp' | 'abs'
        self.off = off        # rel: offset (int, +/-); icp: offset from icp;
        #                       abs: the absolute point
        self.output = output

    def point(self, p, prog):
        if self.kind == 'rel':
            return p + self.off
        if self.kind == 'icp':
            return prog.icp + self.off
        return self.off

    def is_abs(self):
        return self.kind in ('icp', 'abs')

    def key(self):
        return (self.task, self.kind, self.off, self.output)

    def __repr__(self):
        return f'Atom{self.key()}'


class Section:
    """A recurrence: explicit finite point set + its textual heading."""

    def __init__(self, heading, points):
        self.heading = heading
        self.points = sorted(points)
        self.pset = set(points)
        self.lines = []   # [(expr, [targets])]; expr None => no trigger
        # graph lines written out verbatim and not modelled (used for
        # triggers that never fire, e.g. a suicide trigger on an output no
        # job produces)
        self.raw_lines = []

    def __repr__(self):
        return f'Section({self.heading!r}, {self.points})'


class Task:
    def __init__(self, name):
        self.name = name
        self.customs = []        # custom output names
        self.opt = {}            # output -> bool optional (only for referenced)
        self.exec_retries = 0    # N
        self.submit_retries = 0  # M
        self.retry_delay = 2     # seconds
        self.sequential = False
        self.queue = None
        self.clock_expire = None   # offset hours (datetime mode)
        self.xtriggers = []
        self.family = None
        self.completion = None     # user completion expression (text)


class Program:
    def __init__(self):
        self.mode = 'integer'
        self.icp = 1
        self.fcp = 3
        self.base = _dt.datetime(2020, 1, 1, tzinfo=_dt.timezone.utc)
        self.unit = 1            # hours per model unit (datetime)
        self.tasks = {}          # name -> Task
        self.sections = []
        self.runahead = None     # e.g. 'P2'
        self.queues = {}         # qname -> (limit, [members])
        self.families = {}       # FAM -> [members]
        # how sequential tasks are listed under [special tasks]: by name
        # (None), or through a family SEQFAM that they inherit as their
        # 'first' or 'second' parent
        self.seq_family = None
        self.start = None        # warm start point (int) or None
        self.stop = None         # stop point option
        self.hold = None
        self.start_tasks = None
        self.extra_sched = []    # extra lines in [scheduling]
        self.extra_runtime = {}  # name -> [lines]
        self.xtrig_defs = {}     # label -> text
        self.stall_timeout = 'PT0S'
        self.inactivity_timeout = 'PT10M'

    # -- points --------------------------------------------------------
    def pstr(self, p):
        if self.mode == 'integer':
            return str(p)
        d = self.base + _dt.timedelta(hours=p * self.unit)
        return d.strftime('%Y%m%dT%H%MZ')

    def ppoint(self, s):
        """Inverse of pstr."""
        if self.mode == 'integer':
            return int(s)
        d = _dt.datetime.strptime(s, '%Y%m%dT%H%MZ').replace(
            tzinfo=_dt.timezone.utc)
        return int((d - self.base).total_seconds() // 3600) // self.unit

    def dur(self, k):
        """Render an interval of k model units."""
        if self.mode == 'integer':
            return f'P{k}'
        h = k * self.unit
        if h % 24 == 0:
            return f'P{h // 24}D'
        return f'PT{h}H'

    def point_epoch(self, p):
        d = self.base + _dt.timedelta(hours=p * self.unit)
        return d.timestamp()

    # -- structure -----------------------------------------------------
    def task_points(self, name):
        """Points where the task is valid (appears as a target / lone node)."""
        pts = set()
        for s in self.sections:
            for expr, targets in s.lines:
                if name in targets:
                    pts |= s.pset
                elif expr is not None:
                    # a task named on the left with no offset is also placed
                    # on the section's sequence
                    for a in atoms(expr):
                        if a.task == name and a.kind == 'rel' and a.off == 0:
                            pts |= s.pset
        return pts

    def iid(self, name, p):
        return f'{self.pstr(p)}/{name}'

    # -- rendering -----------------------------------------------------
    def render_atom(self, a):
        s = a.task
        if a.kind == 'rel' and a.off:
            s += f'[{"+" if a.off > 0 else "-"}{self.dur(abs(a.off))}]'
        elif a.kind == 'icp':
            s += '[^]' if a.off == 0 else f'[^+{self.dur(a.off)}]'
        elif a.kind == 'abs':
            s += f'[{self.pstr(a.off)}]'
        if a.output != 'succeeded':
            s += ':' + QUAL.get(a.output, a.output)
        t = self.tasks[a.task]
        if t.opt.get(a.output):
            s += '?'
        return s

    def render_expr(self, e, top=True):
        if e[0] == 'atom':
            return self.render_atom(e[1])
        if len(e) > 2 and e[2].get('fam'):
            # a family trigger: written FAM:qualifier, it stands for the
            # expression over the members held in e[1]
            return f"{e[2]['fam']}:{e[2]['qual']}"
        op = ' & ' if e[0] == '&' else ' | '
        s = op.join(self.render_expr(c, False) for c in e[1])
        return s if top else f'({s})'

    def render_target(self, name):
        t = self.tasks[name]
        # optionality of the right-hand side success
        return name + ('?' if t.opt.get('succeeded') else '')

    def render(self):
        L = []
        L.append('[scheduler]')
        L.append('    allow implicit tasks = True')
        if self.mode == 'datetime':
            L.append('    UTC mode = True')
        L.append('    [[events]]')
        L.append(f'        stall timeout = {self.stall_timeout}')
        L.append('        abort on stall timeout = True')
        L.append(f'        inactivity timeout = {self.inactivity_timeout}')
        L.append('        abort on inactivity timeout = True')
        L.append('[scheduling]')
        if self.mode == 'integer':
            L.append('    cycling mode = integer')
        L.append(f'    initial cycle point = {self.pstr(self.icp)}')
        L.append(f'    final cycle point = {self.pstr(self.fcp)}')
        if self.runahead:
            L.append(f'    runahead limit = {self.runahead}')
        L.extend('    ' + x for x in self.extra_sched)
        if self.xtrig_defs:
            L.append('    [[xtriggers]]')
            for lbl, txt in self.xtrig_defs.items():
                L.append(f'        {lbl} = {txt}')
        if self.queues:
            L.append('    [[queues]]')
            for q, (lim, members) in self.queues.items():
                L.append(f'        [[[{q}]]]')
                L.append(f'            limit = {lim}')
                if q != 'default':
                    L.append(f'            members = {", ".join(members)}')
        specials = []
        seq = [t.name for t in self.tasks.values() if t.sequential]
        if seq and self.seq_family:
            specials.append('        sequential = SEQFAM')
        elif seq:
            specials.append(f'        sequential = {", ".join(seq)}')
        # clock-expire offsets are in hours
        ce = [f'{t.name}(PT{t.clock_expire}H)' if t.clock_expire >= 0
              else f'{t.name}(-PT{-t.clock_expire}H)'
              for t in self.tasks.values() if t.clock_expire is not None]
        if ce:
            specials.append(f'        clock-expire = {", ".join(ce)}')
        if specials:
            L.append('    [[special tasks]]')
            L.extend(specials)
        L.append('    [[graph]]')
        for s in self.sections:
            L.append(f'        {s.heading} = """')
            here = set()
            for expr, targets in s.lines:
                rhs = ' & '.join(self.render_target(t) for t in targets)
                here.update(targets)
                if expr is None:
                    L.append(f'            {rhs}')
                else:
                    L.append(f'            {self.render_expr(expr)} => {rhs}')
                    for a in atoms(expr):
                        if a.kind == 'rel' and a.off == 0:
                            here.add(a.task)
            for raw in s.raw_lines:
                L.append(f'            {raw}')
            for t in sorted(here):
                xs = self.tasks[t].xtriggers
                if xs:
                    L.append('            ' + ' & '.join(f'@{x}' for x in xs)
                             + f' => {self.render_target(t)}')
            L.append('        """')
        L.append('[runtime]')
        L.append('    [[root]]')
        L.append('        script = true')
        for fam, members in self.families.items():
            L.append(f'    [[{fam}]]')
        if seq and self.seq_family:
            L.append('    [[SEQFAM]]')
            L.append('    [[OTHERFAM]]')
        for t in self.tasks.values():
            L.append(f'    [[{t.name}]]')
            parents = [t.family] if t.family else []
            if t.sequential and self.seq_family == 'first':
                parents.insert(0, 'SEQFAM')
            elif t.sequential and self.seq_family:
                parents = (parents or ['OTHERFAM']) + ['SEQFAM']
            if parents:
                L.append(f'        inherit = {", ".join(parents)}')
            if t.exec_retries:
                L.append('        execution retry delays = '
                         f'{t.exec_retries}*PT{t.retry_delay}S')
            if t.submit_retries:
                L.append('        submission retry delays = '
                         f'{t.submit_retries}*PT{t.retry_delay}S')
            if t.completion:
                L.append(f'        completion = {t.completion}')
            L.extend('        ' + x for x in self.extra_runtime.get(t.name, []))
            if t.customs:
                L.append('        [[[outputs]]]')
                for c in t.customs:
                    L.append(f'            {c} = msg {c}')
        return '\n'.join(L) + '\n'

    def to_json(self):
        def ex(e):
            if e is None:
                return None
            if e[0] == 'atom':
                return ['atom', list(e[1].key())]
            return [e[0], [ex(c) for c in e[1]]]
        return {
            'mode': self.mode, 'icp': self.icp, 'fcp': self.fcp,
            'runahead': self.runahead, 'start': self.start, 'stop': self.stop,
            'tasks': {n: {'customs': t.customs, 'opt': t.opt,
                          'exec_retries': t.exec_retries,
                          'submit_retries': t.submit_retries,
                          'sequential': t.sequential}
                      for n, t in self.tasks.items()},
            'sections': [{'heading': s.heading, 'points': s.points,
                          'lines': [[ex(e), tg] for e, tg in s.lines]}
                         for s in self.sections],
            'queues': self.queues, 'text': self.render(),
        }


def atoms(expr):
    if expr is None:
        return
    if expr[0] == 'atom':
        yield expr[1]
    else:
        for c in expr[1]:
            yield from atoms(c)


def msg_of(task, output):
    """Message string of an output (custom outputs use 'msg <name>')."""
    if output in STD_OUT:
        return output
    return f'msg {output}'


# ---------------------------------------------------------------------------
# random generation
# ---------------------------------------------------------------------------

DEFAULT_KNOBS = dict(
    n_tasks=(2, 6), n_sections=(1, 3), span=(2, 5), max_lines=4,
    p_or=0.3, p_offset=0.35, p_future=0.08, p_custom=0.35, p_optional=0.3,
    p_fail_trigger=0.15, p_start_trigger=0.1, p_retries=0.25,
    p_abs=0.0, p_runahead=0.5, p_lone=0.3, datetime=0.0,
    p_submit_retries=0.1, p_finish=0.05, p_family=0.0,
)


def gen_program(rng: random.Random, knobs=None):
    k = dict(DEFAULT_KNOBS)
    k.update(knobs or {})
    prog = Program()
    if rng.random() < k['datetime']:
        prog.mode = 'datetime'
        prog.unit = 6
    prog.icp = rng.choice([1, 1, 1, 2, 5]) if prog.mode == 'integer' else 0
    span = rng.randint(*k['span'])
    prog.fcp = prog.icp + span - 1
    n_tasks = rng.randint(*k['n_tasks'])
    names = rng.sample(NAMES, n_tasks)
    # tasks ordered: intra-cycle edges go from lower to higher index
    for n in names:
        t = Task(n)
        if rng.random() < k['p_custom']:
            t.customs = rng.sample(CUSTOMS, rng.randint(1, 2))
        if rng.random() < k['p_retries']:
            t.exec_retries = rng.randint(1, 2)
        if rng.random() < k['p_submit_retries']:
            t.submit_retries = 1
        prog.tasks[n] = t
    order = {n: i for i, n in enumerate(names)}

    # decide optionality per (task, output) up front
    for t in prog.tasks.values():
        succ_opt = rng.random() < k['p_optional']
        t.opt['succeeded'] = succ_opt
        t.opt['failed'] = True          # :fail only ever used with '?'
        t.opt['submit-failed'] = True
        t.opt['expired'] = True
        t.opt['started'] = False
        t.opt['submitted'] = False
        for c in t.customs:
            t.opt[c] = rng.random() < 0.5
    fail_used = set()
    if k['p_family'] and rng.random() < k['p_family'] and len(names) >= 3:
        members = names[:rng.randint(2, 3)]
        prog.families['FAM'] = list(members)
        for m in members:
            prog.tasks[m].family = 'FAM'
            prog.tasks[m].opt['succeeded'] = False

    # sections
    n_sec = rng.randint(*k['n_sections'])
    used_headings = set()
    for _ in range(n_sec):
        sec = _gen_section(rng, prog, used_headings)
        if sec is not None:
            prog.sections.append(sec)
    if not prog.sections:
        prog.sections.append(Section('P1' if prog.mode == 'integer' else prog.dur(1), range(prog.icp, prog.fcp + 1)))

    # which tasks take future-trigger role: must have no prerequisites
    no_prereq_only = set()

    # lines
    placed = set()
    for sec in prog.sections:
        n_lines = rng.randint(1, k['max_lines'])
        for _ in range(n_lines):
            tgt = rng.choice(names)
            if tgt in no_prereq_only:
                continue
            # candidate sources
            if rng.random() < k['p_lone'] or order[tgt] == 0 and rng.random() < 0.5:
                sec.lines.append((None, [tgt]))
                placed.add(tgt)
                continue
            expr = _gen_expr(rng, prog, k, names, order, tgt, sec, fail_used,
                             no_prereq_only, depth=0)
            if expr is None:
                sec.lines.append((None, [tgt]))
            else:
                sec.lines.append((expr, [tgt]))
            placed.add(tgt)
    fam = prog.families.get('FAM')
    if fam and not any(len(e) > 2 for sec in prog.sections
                       for e, _tg in sec.lines if e is not None
                       and e[0] != 'atom'):
        # make sure the family is used by at least one family trigger
        later = [n for n in names if all(order[m] < order[n] for m in fam)
                 and n not in no_prereq_only]
        if later:
            tgt = rng.choice(later)
            qual = rng.choice(['succeed-all', 'succeed-any', 'start-all'])
            out = 'started' if qual == 'start-all' else 'succeeded'
            node = ('|' if qual == 'succeed-any' else '&',
                    [('atom', Atom(m, out, 'rel', 0)) for m in fam],
                    {'fam': 'FAM', 'qual': qual})
            rng.choice(prog.sections).lines.append((node, [tgt]))
            placed.add(tgt)
    # future-trigger sources must have no prerequisites anywhere
    for n in no_prereq_only:
        for sec in prog.sections:
            sec.lines = [
                (None, tg) if n in tg and e is not None else (e, tg)
                for e, tg in sec.lines]
    prog.sections = [sec for sec in prog.sections if sec.lines]
    if not prog.sections:
        sec = Section('P1' if prog.mode == 'integer' else prog.dur(1),
                      range(prog.icp, prog.fcp + 1))
        sec.lines.append((None, [names[0]]))
        prog.sections.append(sec)
    # every task referenced must have its own sequence
    referenced = set()
    for sec in prog.sections:
        for expr, tg in sec.lines:
            for a in atoms(expr):
                referenced.add(a.task)
            referenced.update(tg)
    for n in list(prog.tasks):
        if n not in referenced:
            del prog.tasks[n]
    for n in referenced:
        if not prog.task_points(n):
            # only ever appears with an offset: give it a lone line on the
            # widest section
            sec = max(prog.sections, key=lambda s: len(s.points))
            sec.lines.append((None, [n]))
    # a task with both succeeded and failed referenced must have succeeded
    # optional
    for n in fail_used:
        if n in prog.tasks:
            prog.tasks[n].opt['succeeded'] = True
    # optionality only exists if it is written somewhere in the graph
    rendered_succ = set()
    for sec in prog.sections:
        for e, tg in sec.lines:
            rendered_succ.update(tg)
            for a in atoms(e):
                if a.output == 'succeeded':
                    rendered_succ.add(a.task)
    for n, t in prog.tasks.items():
        if n not in rendered_succ:
            t.opt['succeeded'] = any(
                a.task == n and a.output == 'failed'
                for sec in prog.sections for e, _ in sec.lines
                for a in atoms(e))
    has_future = any(a.kind == 'rel' and a.off > 0 for sec in prog.sections
                     for e, _ in sec.lines for a in atoms(e))
    if rng.random() < k['p_runahead'] and (
            not has_future or k.get('future_with_runahead')):
        # (a future trigger whose target is not yet in the pool does not
        # extend the runahead limit: that combination is C04's business)
        prog.runahead = f'P{rng.randint(0, 4)}'
    _fix_families(prog)
    return prog


def _fix_families(prog):
    """Keep a family trigger only where writing FAM:qualifier means exactly
    the member expression it stands for; otherwise write the members out."""
    if not prog.families:
        return
    fam = [m for m in prog.families.get('FAM', []) if m in prog.tasks]
    ok = len(fam) >= 2 and fam == prog.families.get('FAM') and not any(
        prog.tasks[m].opt.get('succeeded') or prog.tasks[m].opt.get('started')
        for m in fam)
    if not ok:
        for t in prog.tasks.values():
            t.family = None
        prog.families = {}

    def strip(e):
        if e is None or e[0] == 'atom':
            return e
        kids = [strip(c) for c in e[1]]
        if len(e) > 2 and ok:
            return (e[0], kids, e[2])
        return (e[0], kids)
    for s_ in prog.sections:
        s_.lines = [(strip(e), tg) for e, tg in s_.lines]


def _gen_section(rng, prog, used):
    icp, fcp = prog.icp, prog.fcp
    span = fcp - icp + 1
    forms = ['P', 'P', 'R1', 'R1off', 'Poff', 'Rn', 'R1end', 'Rslash', 'caret']
    for _ in range(10):
        f = rng.choice(forms)
        d = prog.dur
        if f == 'P':
            n = rng.randint(1, 3)
            head = d(n)
            pts = range(icp, fcp + 1, n)
        elif f == 'Rslash':
            n = rng.randint(1, 2)
            head = f'R/^/{d(n)}'
            pts = range(icp, fcp + 1, n)
        elif f == 'caret':
            n = rng.randint(1, 2)
            head = f'^/{d(n)}'
            pts = range(icp, fcp + 1, n)
        elif f == 'R1':
            head = 'R1'
            pts = [icp]
        elif f == 'R1off':
            kk = rng.randint(1, max(1, span - 1))
            opts = [f'R1/+{d(kk)}']
            if prog.mode == 'integer':
                opts.append(f'R1/{icp + kk}')
            else:
                opts.append(f'R1/^+{d(kk)}')
            head = rng.choice(opts)
            pts = [icp + kk]
        elif f == 'R1end':
            kk = rng.randint(0, 1)
            if prog.mode == 'integer':
                head = 'R1/$' if kk == 0 else f'R1/P0/-{d(kk)}'
            else:
                head = 'R1/$' if kk == 0 else f'R1/$-{d(kk)}'
            pts = [fcp - kk]
        elif f == 'Poff':
            kk = rng.randint(1, 2)
            n = rng.randint(1, 3)
            head = f'+{d(kk)}/{d(n)}'
            pts = range(icp + kk, fcp + 1, n)
        else:  # Rn
            m = rng.randint(2, 3)
            kk = rng.randint(0, 1)
            n = rng.randint(1, 2)
            if prog.mode == 'integer':
                head = f'R{m}/+{d(kk)}/{d(n)}' if kk else f'R{m}/^/{d(n)}'
            else:
                head = f'R{m}/^+{d(kk)}/{d(n)}' if kk else f'R{m}/^/{d(n)}'
            pts = [icp + kk + i * n for i in range(m)]
        pts = [p for p in pts if icp <= p <= fcp]
        if head in used or not pts:
            continue
        used.add(head)
        return Section(head, pts)
    return None


def _gen_atom(rng, prog, k, names, order, tgt, sec, fail_used, npo):
    # choose source and offset so that the dependency graph is acyclic:
    # same-cycle edges only from lower index; negative offsets from anyone
    # (including self); positive offsets only from tasks with no prereqs.
    r = rng.random()
    if r < k['p_abs']:
        src = rng.choice([n for n in names if order[n] < order[tgt]] or [None])
        if src is None:
            return None
        if rng.random() < 0.5:
            a = Atom(src, 'succeeded', 'icp', rng.randint(0, 1))
        else:
            a = Atom(src, 'succeeded', 'abs',
                     rng.randint(prog.icp, min(prog.fcp, prog.icp + 1)))
        npo.add(src)    # keep abs sources free of prerequisites (simple)
        return a
    if r < k['p_abs'] + k['p_future']:
        cands = [n for n in names if n != tgt and order[n] < order[tgt]]
        if not cands:
            return None
        src = rng.choice(cands)
        npo.add(src)
        a = Atom(src, 'succeeded', 'rel', rng.randint(1, 2))
        return a
    if r < k['p_abs'] + k['p_future'] + k['p_offset']:
        src = rng.choice(names)
        if src in npo and src == tgt:
            return None
        a = Atom(src, 'succeeded', 'rel', -rng.randint(1, 2))
    else:
        cands = [n for n in names if order[n] < order[tgt]]
        if not cands:
            return None
        src = rng.choice(cands)
        a = Atom(src, 'succeeded', 'rel', 0)
    t = prog.tasks[src]
    r2 = rng.random()
    if t.customs and r2 < 0.4:
        a.output = rng.choice(t.customs)
    elif r2 < 0.4 + k['p_fail_trigger']:
        a.output = 'failed'
        fail_used.add(src)
    elif r2 < 0.4 + k['p_fail_trigger'] + k['p_start_trigger']:
        a.output = rng.choice(['started', 'submitted'])
    return a


def _gen_expr(rng, prog, k, names, order, tgt, sec, fail_used, npo, depth,
              seen=None):
    n = rng.choice([1, 1, 2, 2, 3])
    parts = []
    if seen is None:
        # NOTE: cylc mis-parses a trigger expression containing the same
        # offset+qualifier atom twice (C13/C14 territory, not claimed here),
        # so an atom appears at most once per expression.
        seen = set()
    fam = prog.families.get('FAM')
    if fam and depth == 0 and rng.random() < 0.7 and all(
            order[m] < order[tgt] for m in fam):
        qual = rng.choice(['succeed-all', 'succeed-any', 'start-all'])
        out = 'started' if qual == 'start-all' else 'succeeded'
        fparts = [('atom', Atom(m, out, 'rel', 0)) for m in fam]
        if not any(p_[1].key() in seen for p_ in fparts):
            for p_ in fparts:
                seen.add(p_[1].key())
            parts.append(('|' if qual == 'succeed-any' else '&', fparts,
                          {'fam': 'FAM', 'qual': qual}))
    for _ in range(n):
        if depth < 1 and n > 1 and rng.random() < 0.2:
            sub = _gen_expr(rng, prog, k, names, order, tgt, sec, fail_used,
                            npo, depth + 1, seen)
            if sub is not None and sub[0] != 'atom':
                parts.append(sub)
                continue
        a = _gen_atom(rng, prog, k, names, order, tgt, sec, fail_used, npo)
        if a is None or a.key() in seen:
            continue
        if tgt in npo:
            return None
        seen.add(a.key())
        parts.append(('atom', a))
    if not parts:
        return None
    if len(parts) == 1:
        return parts[0]
    op = '|' if rng.random() < k['p_or'] else '&'
    return (op, parts)
