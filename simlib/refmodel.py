"""Executable reference model of spawn-on-demand, independent of cylc classes.

Consumes the generator's AST (simlib.gen.Program) and an OutcomePlan.
States *intended* semantics per the property statements.
"""
import random

from .core import derive_seed
from .gen import STD_OUT, atoms


class OutcomePlan:
    """What each job does: a pure function of job identity.

    For instance (name, point): a list of per-submission outcomes
    ``{'submit': bool, 'final': 'succeeded'|'failed'|'vanish',
       'outputs': [custom message, ...]}``.
    policy:
      'complete'   every finished task completes its required outputs
      'any'        anything may happen (incomplete tasks possible)
    """

    def __init__(self, seed, prog, policy='complete', p_fail=0.3,
                 p_subfail=0.3, p_vanish=0.0, p_optout=0.5,
                 p_subvanish=0.0):
        self.seed = seed
        self.prog = prog
        self.policy = policy
        self.p_fail = p_fail
        self.p_subfail = p_subfail
        self.p_vanish = p_vanish
        self.p_optout = p_optout
        self.p_subvanish = p_subvanish
        self.cache = {}
        self.overrides = {}

    def required_customs(self, t):
        return [c for c in t.customs if c in self._referenced(t) and not t.opt.get(c)]

    def _referenced(self, t):
        ref = getattr(t, '_ref', None)
        if ref is None:
            ref = set()
            for s in self.prog.sections:
                for e, _ in s.lines:
                    for a in atoms(e):
                        if a.task == t.name:
                            ref.add(a.output)
            t._ref = ref
        return ref

    def seq(self, name, p):
        key = (name, p)
        if key in self.overrides:
            return self.overrides[key]
        if key in self.cache:
            return self.cache[key]
        t = self.prog.tasks.get(name)
        if t is None:
            # a task added by a reloaded definition: plain success
            return [{'submit': True, 'final': 'succeeded', 'outputs': []}]
        rng = random.Random(derive_seed(self.seed, 'plan', name, p))
        out = []
        s = 0
        if t.submit_retries and rng.random() < self.p_subfail:
            s = rng.randint(1, t.submit_retries)
        if (self.policy == 'any' and t.submit_retries and self.p_subvanish
                and rng.random() < 0.25):
            # every submission fails (plainly, or accepted and then lost):
            # the task ends submit-failed after M+1 attempts
            for _ in range(t.submit_retries + 1):
                if rng.random() < self.p_subvanish:
                    out.append({'submit': True, 'final': 'subvanish',
                                'outputs': []})
                else:
                    out.append({'submit': False, 'final': None,
                                'outputs': []})
            self.cache[key] = out
            return out
        e = 0
        may_fail_final = (self.policy == 'any') or t.opt.get('succeeded')
        final = 'succeeded'
        if rng.random() < self.p_fail:
            if t.exec_retries:
                e = rng.randint(1, t.exec_retries)
                if may_fail_final and rng.random() < 0.4:
                    e = t.exec_retries
                    final = 'failed'
            elif may_fail_final:
                final = 'failed'
        for _ in range(s):
            if rng.random() < self.p_subvanish:
                # submitted, then lost from the job runner before starting
                out.append({'submit': True, 'final': 'subvanish',
                            'outputs': []})
            else:
                out.append({'submit': False, 'final': None, 'outputs': []})
        req = self.required_customs(t)
        for _ in range(e):
            out.append({
                'submit': True, 'final': 'failed',
                'outputs': [f'msg {c}' for c in t.customs
                            if rng.random() < 0.3]})
        if final == 'succeeded':
            outs = []
            for c in t.customs:
                if c in req:
                    if self.policy == 'any' and rng.random() < 0.15:
                        continue
                    outs.append(c)
                elif rng.random() < self.p_optout:
                    outs.append(c)
        else:
            outs = [c for c in t.customs if rng.random() < 0.3]
        rng.shuffle(outs)
        fin = {'submit': True, 'final': final,
               'outputs': [f'msg {c}' for c in outs]}
        if final == 'failed' and rng.random() < self.p_vanish:
            fin['final'] = 'vanish'
        out.append(fin)
        self.cache[key] = out
        return out

    def __call__(self, point_str, name, submit_num):
        p = self.prog.ppoint(point_str)
        seq = self.seq(name, p)
        i = min(submit_num, len(seq)) - 1
        return seq[max(i, 0)]

    # what the model needs ------------------------------------------------
    def n_submissions(self, name, p):
        return len(self.seq(name, p))

    def final_outputs(self, name, p):
        """Set of completed output *names* (not messages) of a run instance."""
        t = self.prog.tasks[name]
        done = set()
        seq = self.seq(name, p)
        for i, job in enumerate(seq):
            last = i == len(seq) - 1
            if not job['submit']:
                if last:
                    done.add('submit-failed')
                continue
            done.add('submitted')
            if job['final'] == 'subvanish':
                if last:
                    done.add('submit-failed')
                continue
            done.add('started')
            for m in job['outputs']:
                done.add(m[4:] if m.startswith('msg ') else m)
            if job['final'] == 'succeeded':
                done.add('succeeded')
            elif last:
                done.add('failed')
        return done


class Model:
    def __init__(self, prog, plan=None):
        self.prog = prog
        self.plan = plan
        self.start = prog.start if prog.start is not None else prog.icp
        self.stop = prog.stop if prog.stop is not None else prog.fcp
        self._valid = {}
        for n in prog.tasks:
            self._valid[n] = {
                p for p in prog.task_points(n) if prog.icp <= p <= prog.fcp}
        # lines by target
        self._lines = {}
        for s in prog.sections:
            for e, tg in s.lines:
                if e is None:
                    continue
                for t in tg:
                    self._lines.setdefault(t, []).append((s, e))

    # -- static structure --------------------------------------------------
    def valid(self, t, p):
        return p in self._valid.get(t, ())

    def prereq_exprs(self, t, p):
        """Expressions (trees over concrete atoms) instance (t,p) needs."""
        out = []
        seen = set()
        for s, e in self._lines.get(t, []):
            if p in s.pset:
                c = self._inst(e, p)
                k = repr(c)
                if k not in seen:
                    seen.add(k)
                    out.append(c)
        return out

    def _inst(self, e, p):
        if e[0] == 'atom':
            a = e[1]
            return ('atom', (a.task, a.point(p, self.prog), a.output,
                             a.is_abs()))
        return (e[0], [self._inst(c, p) for c in e[1]])

    @staticmethod
    def conc_atoms(e):
        if e[0] == 'atom':
            yield e[1]
        else:
            for c in e[1]:
                yield from Model.conc_atoms(c)

    def atom_true(self, atom, outputs, p_dep=None):
        u, q, o, _ = atom
        if q < self.prog.icp:
            return True       # pre-initial
        if q < self.start and (p_dep is None or p_dep >= self.start):
            return True       # before a warm start point
        return o in outputs.get((u, q), ())

    def eval(self, e, outputs, p_dep=None):
        if e[0] == 'atom':
            return self.atom_true(e[1], outputs, p_dep)
        if e[0] == '&':
            return all(self.eval(c, outputs, p_dep) for c in e[1])
        return any(self.eval(c, outputs, p_dep) for c in e[1])

    def parentless(self, t, p):
        """Valid, at/after start, and every prerequisite atom is pre-start,
        pre-initial, or (all) absolute."""
        if not self.valid(t, p) or p < self.start:
            return False
        if self.prog.tasks[t].sequential:
            prev = [q for q in self._valid[t] if self.start <= q < p]
            if prev:
                return False
        ats = [a for e in self.prereq_exprs(t, p) for a in self.conc_atoms(e)]
        if not ats:
            return True
        if all(a[1] < self.start for a in ats):
            return True
        return all(a[3] for a in ats)

    def children(self, u, q, o):
        """Instances that reference output o of (u,q) in a prerequisite."""
        out = set()
        for t, lines in self._lines.items():
            for s, e in lines:
                for a in atoms(e):
                    if a.task != u or a.output != o:
                        continue
                    if a.kind == 'rel':
                        p = q - a.off
                        if p in s.pset and self.valid(t, p):
                            out.add((t, p))
                    else:
                        # an absolute trigger spawns only the first child, at
                        # the start of the sequence; later instances are
                        # auto-spawned (parentless: only absolute triggers)
                        # or spawned by other parents, and find the
                        # prerequisite already satisfied
                        if a.point(0, self.prog) == q and s.points:
                            p = s.points[0]
                            if self.valid(t, p):
                                out.add((t, p))
        return out

    # -- run semantics -----------------------------------------------------
    def closure(self, extra_roots=()):
        """Fixed point: which instances run, with which final outputs.

        Returns dict with 'ran' {(t,p): outputs}, 'spawned_unsat' set,
        'incomplete' set, 'verdict' 'shutdown'|'stall'.
        """
        prog = self.prog
        plan = self.plan
        outputs = {}
        ran = {}
        spawned = set()
        roots = set(extra_roots)
        for t in prog.tasks:
            for p in sorted(self._valid[t]):
                if self.parentless(t, p) and p <= self.stop:
                    roots.add((t, p))
        pending = set(roots)
        spawned |= roots
        changed = True
        while changed:
            changed = False
            for inst in sorted(pending):
                t, p = inst
                if inst in ran:
                    pending.discard(inst)
                    continue
                if p > self.stop or not self.valid(t, p) or p < self.start:
                    continue
                exprs = self.prereq_exprs(t, p)
                if any(a[1] > self.stop for e in exprs
                       for a in self.conc_atoms(e)):
                    continue    # depends on something beyond the stop point
                if all(self.eval(e, outputs, p) for e in exprs) and (
                        self._seq_ok(t, p, outputs)):
                    outs = plan.final_outputs(t, p)
                    ran[inst] = outs
                    outputs[inst] = outs
                    pending.discard(inst)
                    changed = True
                    for o in outs:
                        for c in self.children(t, p, o):
                            if c not in ran and c not in pending:
                                if c[1] >= self.start:
                                    pending.add(c)
                                    spawned.add(c)
                    if self.prog.tasks[t].sequential and 'succeeded' in outs:
                        nxt = [q for q in sorted(self._valid[t]) if q > p]
                        if nxt and (t, nxt[0]) not in ran:
                            pending.add((t, nxt[0]))
        unsat = set()
        for inst in pending:
            t, p = inst
            if inst in ran or p > self.stop or p < self.start:
                continue
            exprs = self.prereq_exprs(t, p)
            if any(a[1] > self.stop for e in exprs
                   for a in self.conc_atoms(e)):
                continue
            unsat.add(inst)
        incomplete = {i for i, o in ran.items() if not self.complete(i[0], o)}
        verdict = 'stall' if (unsat or incomplete) else 'shutdown'
        return {'ran': ran, 'unsat': unsat, 'incomplete': incomplete,
                'verdict': verdict, 'roots': roots}

    def _seq_ok(self, t, p, outputs):
        if not self.prog.tasks[t].sequential:
            return True
        prev = [q for q in self._valid[t] if self.start <= q < p]
        if not prev:
            return True
        return 'succeeded' in outputs.get((t, max(prev)), ())

    # -- completion --------------------------------------------------------
    def referenced_outputs(self, t):
        ref = set()
        for s in self.prog.sections:
            for e, tg in s.lines:
                for a in atoms(e):
                    if a.task == t:
                        ref.add(a.output)
        return ref

    def complete(self, t, outs):
        """Default completion rule from the C11 statement."""
        task = self.prog.tasks[t]
        if getattr(task, 'completion', None):
            # user completion expression: evaluated by an independent
            # evaluator over the completed outputs
            env = {n: (n in outs) for n in
                   ['succeeded', 'failed', 'submitted', 'started', 'expired']
                   + list(task.customs)}
            env['submit_failed'] = 'submit-failed' in outs
            return bool(eval(task.completion, {'__builtins__': {}}, env))
        ref = self.referenced_outputs(t)
        req = {c for c in task.customs if c in ref and not task.opt.get(c)}
        for o in ('started', 'submitted'):
            if o in ref and not task.opt.get(o):
                req.add(o)
        succ_opt = bool(task.opt.get('succeeded')) or (
            'failed' in ref)
        if not succ_opt:
            ok = 'succeeded' in outs and req <= outs
        else:
            ok = ('succeeded' in outs and req <= outs) or 'failed' in outs
        if not ok and 'submit-failed' in ref and 'submit-failed' in outs:
            ok = True
        if not ok and 'expired' in ref and 'expired' in outs:
            ok = True
        return ok
