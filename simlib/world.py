"""The simulated outside world: jobs, child processes, messages, xtriggers.

Everything the scheduler does not control.  Decisions about *what* a job does
come from the outcome plan (a function of job identity only); decisions about
*when* and *whether things are delivered* come from ``sim.choose``.
"""
import json

from .boot import CLOCK
from .core import HarnessError, SimCrash


def iso(t):
    from cylc.flow.wallclock import get_time_string_from_unix_time
    return get_time_string_from_unix_time(t)


class SimProc:
    """Stand-in for a Popen object managed by SubProcPool."""
    _pid = 100000

    def __init__(self, world, cmd, kind, done_at, finish):
        SimProc._pid += 1
        self.pid = SimProc._pid
        self.args = cmd
        self.kind = kind
        self.world = world
        self.done_at = done_at
        self.finish = finish     # callable() -> (rc, out, err), run once
        self.stdout = None
        self.stderr = None
        self.result = None
        self.killed = False
        self.returncode = None

    def _resolve(self):
        if self.result is None:
            if self.killed:
                self.result = (-9, '', '')
            else:
                self.result = self.finish()
            self.returncode = self.result[0]
            self.world.proc_done(self)

    def poll(self):
        self.world.intercept('proc.poll')
        if self.killed or CLOCK.t >= self.done_at:
            self._resolve()
            return self.returncode
        return None

    def wait(self, timeout=None):
        if self.result is None:
            if not self.killed and CLOCK.t < self.done_at:
                # blocking wait: time passes
                CLOCK.t = self.done_at
            self._resolve()
        return self.returncode

    def communicate(self, input=None, timeout=None):  # noqa: A002
        self.wait()
        return (self.result[1].encode(), self.result[2].encode())

    def sim_kill(self):
        if self.result is not None:
            return False
        self.killed = True
        self.world.sim.fault('proc_killed')
        return True


class SimJob:
    """A job in the outside world with a fixed timeline."""

    def __init__(self, key, plan, t_submit, timing):
        self.key = key                  # (point, name, submit_num:int)
        self.plan = plan
        self.t_submit = t_submit
        self.job_id = None
        self.submit_ok = plan.get('submit', True)
        self.t_start = None
        self.t_end = None
        self.final = plan.get('final', 'succeeded')   # succeeded|failed|vanish
        self.signal = plan.get('signal', 'ERR')
        self.outputs = list(plan.get('outputs', []))  # custom output messages
        self.out_times = []
        self.killed_at = None
        self.timing = timing
        self.frozen_until = None
        if self.submit_ok and self.final == 'subvanish':
            # accepted by the job runner, then gone from it before starting:
            # no message ever; polls find nothing in the queue and no status
            self.t_end = t_submit + timing['queue']
        elif self.submit_ok:
            self.t_start = t_submit + timing['queue']
            t = self.t_start
            for i, _ in enumerate(self.outputs):
                t += timing['steps'][i]
                self.out_times.append(t)
            self.t_end = t + timing['tail']

    # state at time T ------------------------------------------------------
    def started(self, t):
        return self.submit_ok and self.t_start is not None and t >= self.t_start

    def ended(self, t):
        if self.killed_at is not None and t >= self.killed_at:
            return True
        return self.submit_ok and self.t_end is not None and t >= self.t_end

    def end_time(self):
        if self.killed_at is not None and (
                self.t_end is None or self.killed_at < self.t_end):
            return self.killed_at
        return self.t_end

    def final_at(self, t):
        """'succeeded' | 'failed' | 'vanish' | 'killed' | None (not ended)."""
        if not self.ended(t):
            return None
        if self.killed_at is not None and (
                self.t_end is None or self.killed_at < self.t_end):
            return 'killed'
        return self.final

    def outputs_at(self, t):
        lim = t
        if self.killed_at is not None:
            lim = min(t, self.killed_at)
        return [m for m, mt in zip(self.outputs, self.out_times) if mt <= lim]

    def active(self, t):
        return self.submit_ok and t >= self.t_submit and not self.ended(t)


class World:
    """Jobs + subprocess factory + message network."""

    def __init__(self, sim, plan_fn, cfg=None):
        self.sim = sim
        self.plan_fn = plan_fn
        self.cfg = cfg or {}
        self.jobs = {}            # key -> SimJob
        self.launch_log = []      # (t, key) every creation incl. duplicates
        self.dup_launches = []    # keys launched more than once
        self.pending_msgs = []    # [due, seq, key, severity, message, evt_t]
        self.seq = 0
        self.schd = None          # current scheduler (None while down)
        self.schd_up_since = 0.0
        self.down_intervals = []  # [(t0, t1)] when no scheduler was alive
        self.intercept_hooks = []  # callables(label)
        self.procs_running = []
        self.xtrig_calls = []     # (t_req, sig)  (t_done filled later)
        self.xtrig_plan = self.cfg.get('xtrig_plan') or (lambda sig, n: True)
        self.xtrig_count = {}
        self.poll_log = []
        self.kill_log = []
        self.handler_log = []
        self.n_intercepts = 0
        self.crash_at = None      # intercept/durable index at which to crash
        self.effects = 0          # durable-effect counter (shared with DB)
        self.on_launch = []       # callbacks(key, job)
        self.msg_log = []         # delivered messages
        self.lost_msgs = []       # (key, message) dropped for good
        self._job_last_due = {}
        self.effect_log = None    # list of (kind, detail) when recording
        self.superseded = []      # (key, job) replaced by a duplicate launch

    # ------------------------------------------------------------------
    def effect(self, kind, detail=''):
        """A durable / externally visible effect: potential crash point."""
        self.effects += 1
        if self.effect_log is not None:
            self.effect_log.append((kind, detail))
        if self.crash_at is not None and self.effects == self.crash_at:
            self.sim.fault('crash')
            self.sim.log('CRASH at effect', self.effects, kind, detail)
            raise SimCrash(f'effect {self.effects} {kind} {detail}')

    def intercept(self, label):
        self.n_intercepts += 1
        for h in self.intercept_hooks:
            h(label)

    # ------------------------------------------------------------------
    # timing helpers (all via sim.choose; 0 is the fast/benign default)
    def _dur(self, label, options):
        return options[self.sim.choose(len(options), label)]

    def _job_timing(self, plan):
        n = len(plan.get('outputs', []))
        c = self.cfg
        return {
            'queue': self._dur('job.queue', c.get('queue_opts', (0.0, 1.0, 3.0))),
            'steps': [self._dur('job.step', c.get('step_opts', (1.0, 0.0, 2.0)))
                      for _ in range(n)],
            'tail': self._dur('job.tail', c.get('tail_opts', (1.0, 0.0, 2.0, 5.0))),
        }

    # ------------------------------------------------------------------
    def procopen(self, cmd, **kw):
        if isinstance(cmd, str):
            argv = cmd.split()
        else:
            argv = list(cmd)
        kind = 'other'
        if len(argv) >= 2 and argv[0] == 'cylc':
            kind = argv[1]
        self.effect('procopen', kind)
        sim = self.sim
        now = CLOCK.t
        if kind == 'jobs-submit':
            return self._submit(argv, now)
        if kind == 'jobs-poll':
            return self._poll(argv, now)
        if kind == 'jobs-kill':
            return self._kill(argv, now)
        if kind == 'function-run':
            return self._xtrig(argv, now)
        # event handlers etc.
        self.handler_log.append((now, argv if not isinstance(cmd, str) else cmd))
        sim.log('proc other', ' '.join(map(str, argv))[:80])
        lat = self._dur('proc.other', (0.0, 1.0))
        p = SimProc(self, argv, kind, now + lat, lambda: (0, '', ''))
        self.procs_running.append(p)
        return p

    def proc_done(self, proc):
        try:
            self.procs_running.remove(proc)
        except ValueError:
            pass

    @staticmethod
    def _ids(argv):
        i = argv.index('--')
        return argv[i + 1], argv[i + 2:]

    @staticmethod
    def _key(job_dir):
        point, name, nn = job_dir.split('/')
        return (point, name, int(nn))

    # -- submit ------------------------------------------------------------
    def _submit(self, argv, now):
        sim = self.sim
        _, job_dirs = self._ids(argv)
        lat = self._dur('submit.lat', self.cfg.get('submit_lat', (0.0, 1.0, 2.0)))
        whole_fail = sim.flip('submit_cmd_fail')
        lines = []
        for jd in job_dirs:
            key = self._key(jd)
            plan = dict(self.plan_fn(*key))
            timing = self._job_timing(plan)
            if whole_fail:
                plan['submit'] = False
            job = SimJob(key, plan, now + lat, timing)
            if key in self.jobs:
                self.dup_launches.append(key)
                self.superseded.append((key, self.jobs[key]))
                sim.log('DUP-LAUNCH', key)
                # the newer launch replaces the older in the world's table,
                # (the violation is recorded separately)
            self.launch_log.append((now, key))
            sim.log('launch', jd, 'submit_ok' if job.submit_ok else 'submit_FAIL',
                    plan.get('final'))
            if job.submit_ok:
                job.job_id = str(2000 + len(self.launch_log))
                self.jobs[key] = job
                self._schedule_job_messages(job)
                lines.append(('ok', jd, job))
            else:
                sim.fault('submit_fail')
                self.jobs.setdefault(key, job)
                if key in self.jobs and self.jobs[key] is not job:
                    self.jobs[key] = job
                lines.append(('fail', jd, job))
            for cb in self.on_launch:
                cb(key, job)

        def finish():
            t = iso(CLOCK.epoch + now + lat)
            if whole_fail and sim.choose(2, 'submit.noout'):
                return (1, '', 'submit command failed')
            out = []
            for st, jd, job in lines:
                if st == 'ok':
                    out.append(f'[TASK JOB SUMMARY]{t}|{jd}|0|{job.job_id}')
                else:
                    out.append(f'[TASK JOB SUMMARY]{t}|{jd}|1|None')
            return (0, '\n'.join(out) + '\n', '')
        p = SimProc(self, argv, 'jobs-submit', now + lat, finish)
        self.procs_running.append(p)
        return p

    def _schedule_job_messages(self, job):
        """Queue the messages this job will send, with network faults."""
        if job.final == 'subvanish':
            return
        msgs = [(job.t_start, 'INFO', 'started')]
        for m, t in zip(job.outputs, job.out_times):
            msgs.append((t, 'INFO', m))
        if job.final == 'succeeded':
            msgs.append((job.t_end, 'INFO', 'succeeded'))
        elif job.final == 'failed':
            msgs.append((job.t_end, 'CRITICAL', f'failed/{job.signal}'))
        # 'vanish': no message
        for t, sev, m in msgs:
            self._send(job.key, t, sev, m)

    def _send(self, key, t_send, sev, msg):
        sim = self.sim
        droppable = self.cfg.get('drop_customs', False) or not (
            msg.startswith('msg '))
        if droppable and sim.flip('msg_drop'):
            self.lost_msgs.append((key, msg))
            sim.log('msg dropped', key, msg)
            return
        delay = 0.0
        if sim.flip('msg_delay'):
            delay = self._dur('msg.delay', (0.5, 2.0, 6.0, 15.0))
        due = t_send + delay
        if not self.cfg.get('intra_job_reorder', False):
            # per-job FIFO: a later message never overtakes an earlier one
            due = max(due, self._job_last_due.get(key, 0.0))
            self._job_last_due[key] = due
        else:
            if due < self._job_last_due.get(key, 0.0):
                sim.fault('msg_intra_job_reorder')
            self._job_last_due[key] = max(due, self._job_last_due.get(key, 0.0))
        delay = due - t_send
        self.seq += 1
        self.pending_msgs.append([due, self.seq, key, sev, msg, t_send])
        if sim.flip('msg_dup'):
            d2 = delay + self._dur('msg.dupdelay', (0.0, 1.0, 5.0))
            self.seq += 1
            self.pending_msgs.append([t_send + d2, self.seq, key, sev, msg, t_send])

    def deliver_due_messages(self):
        """Move due messages onto the scheduler's message queue."""
        if self.schd is None:
            return
        now = CLOCK.t
        due = [m for m in self.pending_msgs if m[0] <= now]
        if not due:
            return
        from cylc.flow.id import Tokens
        from cylc.flow.network.resolvers import TaskMsg
        due.sort(key=lambda m: (m[0], m[1]))
        if len(due) > 1 and self.sim.flip('msg_reorder'):
            # seeded permutation
            out = []
            pool = list(due)
            while pool:
                out.append(pool.pop(self.sim.choose(len(pool), 'msg.order')))
            if not self.cfg.get('intra_job_reorder', False):
                # keep each job's own messages in their sending order
                slots = {}
                for m in out:
                    slots.setdefault(m[2], []).append(m)
                for k in slots:
                    slots[k].sort(key=lambda m: (m[5], m[1]))
                idx = {k: 0 for k in slots}
                fixed = []
                for m in out:
                    k = m[2]
                    fixed.append(slots[k][idx[k]])
                    idx[k] += 1
                out = fixed
            due = out
        for m in due:
            self.pending_msgs.remove(m)
            _, _, key, sev, msg, t_send = m
            job = self.jobs.get(key)
            if job is not None and job.killed_at is not None and (
                    t_send > job.killed_at):
                continue  # job died before sending this
            if t_send < self.schd_up_since and self._was_down(t_send):
                self.lost_msgs.append((key, msg))
                self.sim.fault('msg_lost_while_down')
                self.sim.log('msg lost (scheduler down)', key, msg)
                continue
            jd = f'{key[0]}/{key[1]}/{key[2]:02d}'
            self.sim.log('deliver', jd, msg)
            self.msg_log.append((now, key, msg))
            self.schd.message_queue.put(TaskMsg(
                Tokens(jd, relative=True),
                iso(CLOCK.epoch + t_send), sev, msg))

    def _was_down(self, t):
        return any(a <= t < b for a, b in self.down_intervals)

    # -- poll --------------------------------------------------------------
    def _poll(self, argv, now):
        sim = self.sim
        _, job_dirs = self._ids(argv)
        lat = self._dur('poll.lat', self.cfg.get('poll_lat', (0.0, 1.0, 3.0)))
        fail = sim.flip('poll_fail')
        t_ans = now + lat
        self.poll_log.append((now, tuple(job_dirs)))
        sim.log('poll', ','.join(job_dirs))

        def finish():
            from cylc.flow.job_runner_mgr import JobPollContext
            if fail:
                return (1, '', 'poll failed')
            ts = iso(CLOCK.epoch + t_ans)
            out = []
            for jd in job_dirs:
                job = self.jobs.get(self._key(jd))
                ctx = JobPollContext(jd)
                if job is None or not job.submit_ok:
                    # no status file: treat as never ran / gone
                    ctx.job_runner_exit_polled = 1
                    ctx.run_status = None
                    out.append(f'[TASK JOB SUMMARY]{ts}|{ctx.get_summary_str()}')
                    continue
                ctx.job_runner_name = 'background'
                ctx.job_id = job.job_id
                ctx.time_submit_exit = iso(CLOCK.epoch + job.t_submit)
                if job.started(t_ans):
                    ctx.time_run = iso(CLOCK.epoch + job.t_start)
                fin = job.final_at(t_ans)
                for m in job.outputs_at(t_ans):
                    out.append(
                        f'[TASK JOB MESSAGE]{ts}|{jd}|'
                        f'{iso(CLOCK.epoch + t_ans)}|INFO|{m}')
                if fin == 'succeeded':
                    ctx.run_status = 0
                    ctx.time_run_exit = iso(CLOCK.epoch + job.end_time())
                elif fin == 'failed':
                    ctx.run_status = 1
                    ctx.run_signal = job.signal
                    ctx.time_run_exit = iso(CLOCK.epoch + job.end_time())
                    if job.signal not in ('ERR', 'EXIT'):
                        ctx.job_runner_exit_polled = 1
                elif fin == 'killed':
                    if job.started(job.killed_at):
                        ctx.run_status = 1
                        ctx.run_signal = 'TERM'
                        ctx.time_run_exit = iso(CLOCK.epoch + job.end_time())
                    ctx.job_runner_exit_polled = 1
                elif fin in ('vanish', 'subvanish'):
                    ctx.job_runner_exit_polled = 1
                else:
                    ctx.job_runner_exit_polled = 0
                out.append(f'[TASK JOB SUMMARY]{ts}|{ctx.get_summary_str()}')
            return (0, '\n'.join(out) + '\n', '')
        p = SimProc(self, argv, 'jobs-poll', t_ans, finish)
        self.procs_running.append(p)
        return p

    # -- kill --------------------------------------------------------------
    def _kill(self, argv, now):
        sim = self.sim
        _, job_dirs = self._ids(argv)
        lat = self._dur('kill.lat', (0.0, 1.0))
        res = []
        for jd in job_dirs:
            key = self._key(jd)
            job = self.jobs.get(key)
            ok = False
            if job is not None and job.active(now + lat) and not sim.flip('kill_fail'):
                job.killed_at = now + lat
                ok = True
                # cancel unsent messages
                self.pending_msgs = [
                    m for m in self.pending_msgs
                    if not (m[2] == key and m[5] > job.killed_at)]
                if job.started(job.killed_at) and not sim.flip('kill_notrap'):
                    self._send(key, job.killed_at, 'CRITICAL', 'failed/TERM')
            self.kill_log.append((now, key, ok))
            sim.log('kill', jd, ok)
            res.append((jd, 0 if ok else 1))

        def finish():
            ts = iso(CLOCK.epoch + now + lat)
            out = [f'[TASK JOB SUMMARY]{ts}|{jd}|{rc}' for jd, rc in res]
            return (0, '\n'.join(out) + '\n', '')
        p = SimProc(self, argv, 'jobs-kill', now + lat, finish)
        self.procs_running.append(p)
        return p

    # -- xtrigger functions --------------------------------------------------
    def _xtrig(self, argv, now):
        sim = self.sim
        mod, func, jargs, jkwargs = argv[2:6]
        sig = f'{func}({jargs},{jkwargs})'
        n = self.xtrig_count.get(sig, 0)
        self.xtrig_count[sig] = n + 1
        lat = self._dur('xtrig.lat', self.cfg.get('xtrig_lat', (0.0, 1.0, 4.0)))
        res = self.xtrig_plan(sig, n)
        rec = {'sig': sig, 't_req': now, 't_done': now + lat, 'res': res, 'n': n}
        self.xtrig_calls.append(rec)
        sim.log('xtrig call', sig, n, res)

        def finish():
            if res == 'error':
                return (1, '', 'xtrigger function failed')
            if res == 'garbage':
                return (0, 'not json', '')
            if res:
                return (0, json.dumps([True, {'value': 'v%d' % n}]), '')
            return (0, json.dumps([False, {}]), '')
        p = SimProc(self, argv, 'function-run', now + lat, finish)
        self.procs_running.append(p)
        return p

    # ------------------------------------------------------------------
    def scheduler_up(self, schd):
        self.schd = schd
        self.schd_up_since = CLOCK.t

    def scheduler_down(self):
        self.schd = None
        self._down_from = CLOCK.t
        # in-flight subprocesses die with the scheduler's process group?
        # (jobs-submit children may survive; jobs already created stay.)
        self.procs_running.clear()

    def downtime(self, secs):
        t0 = CLOCK.t
        CLOCK.advance(secs)
        self.down_intervals.append((t0, CLOCK.t))

    def quiescent(self):
        """Nothing in the world will produce another event by itself."""
        now = CLOCK.t
        if self.pending_msgs:
            return False
        if self.procs_running:
            return False
        return not any(j.active(now) for j in self.jobs.values())

    def next_event_time(self):
        ts = [m[0] for m in self.pending_msgs]
        ts += [p.done_at for p in self.procs_running]
        return min(ts) if ts else None
