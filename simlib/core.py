"""Simulator core: choice log, event loop, seams.

Import ``simlib.boot`` first (it patches the clock before cylc is imported).
"""
import asyncio
import hashlib
import heapq
import json
import os
import queue
import random
import sqlite3 as real_sqlite3
import types

from . import boot
from .boot import CLOCK


class SimCrash(BaseException):
    """Abrupt death of the scheduler process (passes ``except Exception``)."""


class SimLivelock(BaseException):
    """The scheduler spins (blocking sleeps) without finishing a main-loop
    iteration; passes ``except Exception`` so that it cannot be swallowed."""


class HarnessError(Exception):
    """The harness itself is broken (never reported as pass/violation)."""


class Violation(Exception):
    def __init__(self, rule, detail):
        super().__init__(f'{rule}: {detail}')
        self.rule = rule
        self.detail = detail


# ---------------------------------------------------------------------------
# choice log
# ---------------------------------------------------------------------------

class Sim:
    """One simulated execution: PRNG, choice log, event log, counters.

    Every nondeterministic decision goes through ``choose``.  In replay mode
    choices come from the recorded list; beyond the list they default to 0
    (= no fault / FIFO / no delay).
    """

    def __init__(self, seed, replay=None, rates=None):
        self.seed = seed
        self.rng = random.Random(seed)
        self.replay = list(replay) if replay is not None else None
        self.pos = 0
        self.choices = []       # recorded values
        self.labels = []        # parallel: labels (debug only)
        self.events = []        # event log (strings), no clock reads beyond CLOCK.t
        self.faults = {}        # kind -> count fired
        self.probes = {}        # probe -> count
        self.rates = dict(rates or {})
        self.digest = hashlib.sha256()
        self.quiet = False

    # -- choices -----------------------------------------------------------
    def choose(self, n, label=''):
        """Return an int in [0, n). 0 is always the benign choice."""
        if n <= 1:
            return 0
        if self.replay is not None:
            if self.pos < len(self.replay):
                v = self.replay[self.pos]
                if not (0 <= v < n):
                    v = v % n
            else:
                v = 0
        else:
            v = self.rng.randrange(n)
        self.pos += 1
        self.choices.append(v)
        self.labels.append(label)
        return v

    def flip(self, kind, default=0.0):
        """Bernoulli fault decision; recorded as a binary choice.

        Rates are quantised to 1/1000 so a flip is ``choose(1000) < p*1000``
        but 0 must stay benign: value 0..k-1 => benign when k = (1-p)*1000.
        We record a 0/1 choice instead, to make shrinking effective.
        """
        p = self.rates.get(kind, default)
        if p <= 0:
            return False
        if self.replay is not None:
            v = self.choose(2, kind)
        else:
            v = 1 if self.rng.random() < p else 0
            self.pos += 1
            self.choices.append(v)
            self.labels.append(kind)
        if v:
            self.fault(kind)
        return bool(v)

    def fault(self, kind, n=1):
        self.faults[kind] = self.faults.get(kind, 0) + n

    def probe(self, name, n=1):
        self.probes[name] = self.probes.get(name, 0) + n

    # -- event log ---------------------------------------------------------
    def log(self, *parts):
        s = f'{CLOCK.t:.3f} ' + ' '.join(str(p) for p in parts)
        self.events.append(s)
        self.digest.update(s.encode())
        self.digest.update(b'\n')

    def hexdigest(self):
        return self.digest.hexdigest()[:16]


def derive_seed(*parts):
    h = hashlib.sha256('/'.join(str(p) for p in parts).encode()).digest()
    return int.from_bytes(h[:8], 'big')


# ---------------------------------------------------------------------------
# event loop on virtual time
# ---------------------------------------------------------------------------

class SimLoop(asyncio.SelectorEventLoop):
    """asyncio loop whose clock is the simulated clock.

    When nothing is ready the clock jumps to the earliest live timer.
    """

    def time(self):
        return CLOCK.t

    def _run_once(self):
        sched = self._scheduled
        if not self._ready and sched:
            while sched and sched[0]._cancelled:
                h = heapq.heappop(sched)
                h._scheduled = False
                self._timer_cancelled_count -= 1
            if sched:
                when = sched[0]._when
                if when > CLOCK.t:
                    CLOCK.t = when
        super()._run_once()


def run_coro(coro):
    """Run a coroutine to completion on a fresh SimLoop."""
    loop = SimLoop()
    try:
        asyncio.set_event_loop(loop)
        task = loop.create_task(coro, name='sim-main')
        return loop.run_until_complete(task)
    finally:
        try:
            # cancel leftovers deterministically
            for t in asyncio.all_tasks(loop):
                t.cancel()
            loop.run_until_complete(asyncio.sleep(0))
        except BaseException:
            pass
        asyncio.set_event_loop(None)
        loop.close()


# ---------------------------------------------------------------------------
# queues with interception points
# ---------------------------------------------------------------------------

class SimQueue(queue.Queue):
    """queue.Queue whose reads are interception points."""

    def __init__(self, label, hook):
        super().__init__()
        self.label = label
        self.hook = hook

    def qsize(self):
        self.hook(self.label)
        return super().qsize()

    def empty(self):
        self.hook(self.label)
        return super().empty()


# ---------------------------------------------------------------------------
# sqlite proxy (durable-effect points)
# ---------------------------------------------------------------------------

class ConnProxy:
    """Wraps a real sqlite3 connection, counting durable effects."""

    def __init__(self, conn, path, ctl):
        self._c = conn
        self._path = path
        self._ctl = ctl
        self._kind = ctl.classify(path)

    def _pt(self, op, stmt=''):
        self._ctl.db_point(self._kind, op, stmt, self)

    def execute(self, stmt, *a):
        self._pt('execute', stmt)
        return self._c.execute(stmt, *a)

    def executemany(self, stmt, *a):
        self._pt('executemany', stmt)
        return self._c.executemany(stmt, *a)

    def executescript(self, *a):
        self._pt('executescript')
        return self._c.executescript(*a)

    def commit(self):
        self._pt('commit')
        r = self._c.commit()
        self._ctl.db_after_commit(self._kind)
        return r

    def rollback(self):
        return self._c.rollback()

    def close(self):
        self._ctl.db_closed(self)
        return self._c.close()

    def cursor(self):
        return self._c.cursor()

    # sqlite3.Connection as a context manager: commit on success, roll back
    # on an exception (both through the counted methods above)
    def __enter__(self):
        return self

    def __exit__(self, etype, exc, tb):
        if etype is None:
            self.commit()
        else:
            self.rollback()
        return False

    def __getattr__(self, name):
        return getattr(self._c, name)


class DbCtl:
    """Controller for DB seams: decides faults, keeps handles for crash."""

    def __init__(self):
        self.open = []
        self.handler = None   # callable(kind, op, stmt) may raise
        self.after_commit = None
        self.count = {'pri': 0, 'pub': 0, 'other': 0}

    def reset(self):
        self.close_all()
        self.handler = None
        self.after_commit = None
        self.count = {'pri': 0, 'pub': 0, 'other': 0}

    @staticmethod
    def classify(path):
        p = str(path)
        if p.endswith('.service/db'):
            return 'pri'
        if p.endswith('log/db'):
            return 'pub'
        return 'other'

    def connect(self, path, *a, **k):
        conn = real_sqlite3.connect(path, *a, **k)
        proxy = ConnProxy(conn, path, self)
        self.open.append(proxy)
        return proxy

    def db_point(self, kind, op, stmt, proxy):
        self.count[kind] = self.count.get(kind, 0) + 1
        if self.handler is not None:
            self.handler(kind, op, stmt)

    def db_after_commit(self, kind):
        if self.after_commit is not None:
            self.after_commit(kind)

    def db_closed(self, proxy):
        try:
            self.open.remove(proxy)
        except ValueError:
            pass

    def close_all(self):
        """Process death: close handles without commit (journal rollback)."""
        for p in list(self.open):
            try:
                p._c.rollback()
            except Exception:
                pass
            try:
                p._c.close()
            except Exception:
                pass
        self.open.clear()


DBCTL = DbCtl()


def _make_sqlite_proxy_module():
    mod = types.ModuleType('sqlite3_proxy')
    for name in dir(real_sqlite3):
        if not name.startswith('__'):
            setattr(mod, name, getattr(real_sqlite3, name))
    mod.connect = DBCTL.connect
    return mod


# ---------------------------------------------------------------------------
# fake server, thread, barrier, uuid
# ---------------------------------------------------------------------------

class _RecQueue(queue.Queue):
    """publish_queue stand-in: records batches through a hook."""

    def __init__(self, hook):
        super().__init__()
        self.hook = hook

    def put(self, item, *a, **k):
        if self.hook is not None:
            self.hook(item)


class SimServer:
    """Stub for WorkflowRuntimeServer (no sockets, no thread).

    Builds the real Resolvers object so that commands are validated and
    queued by shipped code.
    """
    on_publish = None  # class-level hook set by the harness

    def __init__(self, schd):
        from cylc.flow.network.resolvers import Resolvers
        self.schd = schd
        self.port = 43001
        self.pub_port = 43002
        self.replier = None
        self.publisher = None
        self.loop = None
        self.thread = None
        self.stopped = True
        self.waiting_to_stop = False
        self.resolvers = Resolvers(schd.data_store_mgr, schd=schd)
        self.publish_queue = _RecQueue(self._published)
        self.curve_configured = 0

    def _published(self, item):
        if SimServer.on_publish is not None:
            SimServer.on_publish(self.schd, item)

    def start(self, barrier):
        self.stopped = False
        barrier.wait()

    def configure_curve(self):
        self.curve_configured += 1

    async def stop(self, reason):
        self.stopped = True


class FakeBarrier:
    def __init__(self, *a, **k):
        pass

    def wait(self, *a, **k):
        return 0


class FakeThread:
    def __init__(self, target=None, args=(), kwargs=None, daemon=None,
                 name=None):
        self._target = target
        self._args = args
        self._kwargs = kwargs or {}

    def start(self):
        if self._target:
            self._target(*self._args, **self._kwargs)

    def join(self, timeout=None):
        return

    def is_alive(self):
        return False


class Counter:
    def __init__(self, prefix):
        self.prefix = prefix
        self.n = 0

    def reset(self):
        self.n = 0

    def __call__(self):
        self.n += 1
        return f'{self.prefix}-{self.n:08d}'


UUIDS = Counter('00000000-0000-4000-8000')


class _PopenOK:
    """Stub for the ``bash -n`` syntax check in job_file."""

    def __init__(self, *a, **k):
        self.returncode = 0
        # fault: the job script fails its syntax check, i.e. job preparation
        # fails before any submission command is issued (rate 'job_prep_fail',
        # zero unless a driver asks for it)
        w = Seams.world
        if w is not None and w.sim.flip('job_prep_fail'):
            w.sim.fault('job_prep_fail')
            w.sim.log('job preparation failed (script check)')
            self.returncode = 1

    def communicate(self, *a, **k):
        return ('', 'simulated syntax error' if self.returncode else '')

    def wait(self, *a, **k):
        return self.returncode

    def __enter__(self):
        return self

    def __exit__(self, *a):
        return False


class Seams:
    """Installs (idempotently) all harness-side rebinding of cylc names."""
    installed = False
    world = None          # current World (procopen target)
    hash_salt = 0
    jobfile_fault = None  # callable(path) may raise OSError

    @classmethod
    def install(cls):
        if cls.installed:
            return
        import datetime as _dt

        import cylc.flow.flow_mgr as flow_mgr
        import cylc.flow.job_file as job_file
        import cylc.flow.network.resolvers as resolvers
        import cylc.flow.rundb as rundb
        import cylc.flow.scheduler as scheduler
        import cylc.flow.subprocpool as subprocpool
        import cylc.flow.task_proxy as task_proxy
        import cylc.flow.wallclock as wallclock
        import cylc.flow.workflow_files as workflow_files

        def need(mod, name):
            if not hasattr(mod, name):
                raise HarnessError(f'seam missing: {mod.__name__}.{name}')

        # subprocesses
        need(subprocpool, 'procopen')
        need(subprocpool, '_killpg')
        subprocpool.procopen = cls._procopen
        subprocpool._killpg = cls._killpg
        # server / thread
        need(scheduler, 'WorkflowRuntimeServer')
        scheduler.WorkflowRuntimeServer = SimServer
        need(scheduler, 'Thread')
        need(scheduler, 'Barrier')
        scheduler.Thread = FakeThread
        scheduler.Barrier = FakeBarrier
        # uuid
        need(scheduler, 'uuid4')
        scheduler.uuid4 = UUIDS
        need(resolvers, 'uuid4')
        resolvers.uuid4 = UUIDS
        # sqlite
        need(rundb, 'sqlite3')
        rundb.sqlite3 = _make_sqlite_proxy_module()
        # bash -n
        need(job_file, 'Popen')
        job_file.Popen = _PopenOK
        # process liveness (stale contact file after a crash)
        need(workflow_files, '_is_process_running')
        workflow_files._is_process_running = lambda *a, **k: False
        # datetime.now
        real_dt = _dt.datetime

        class SimDateTime(real_dt):
            @classmethod
            def now(klass, tz=None):
                return real_dt.fromtimestamp(CLOCK.epoch + CLOCK.t, tz)

        need(wallclock, 'datetime')
        wallclock.datetime = SimDateTime
        need(flow_mgr, 'datetime')
        fake_mod = types.ModuleType('datetime_proxy')
        for name in dir(_dt):
            if not name.startswith('__'):
                setattr(fake_mod, name, getattr(_dt, name))
        fake_mod.datetime = SimDateTime
        flow_mgr.datetime = fake_mod
        # deterministic but seed-varied set order of task proxies
        need(task_proxy, 'TaskProxy')

        def _hash(self):
            return hash((cls.hash_salt, self.identity))
        task_proxy.TaskProxy.__hash__ = _hash
        # psutil for contact data: keep real (stable within a process)
        cls.installed = True

    @classmethod
    def _procopen(cls, cmd, **kw):
        if cls.world is None:
            raise HarnessError(f'procopen with no world: {cmd}')
        return cls.world.procopen(cmd, **kw)

    @classmethod
    def _killpg(cls, proc, sig):
        if hasattr(proc, 'sim_kill'):
            return proc.sim_kill()
        return False


def write_global_config(text):
    import cylc.flow.platforms as platforms
    from cylc.flow.cfgspec.glbl_cfg import glbl_cfg
    path = os.path.join(boot.CONF, 'global.cylc')
    with open(path, 'w') as fh:
        fh.write(text)
    glbl_cfg(reload=True)
    for fn in ('get_platform', 'platform_from_name'):
        f = getattr(platforms, fn, None)
        if f is not None and hasattr(f, 'cache_clear'):
            f.cache_clear()


def jdump(obj):
    return json.dumps(obj, sort_keys=True, default=str)
